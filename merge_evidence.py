#!/usr/bin/env python3
"""Merges the per-build evidence parts written by qxmc into /verif/evidence/<id>.json."""
import glob, json, os, sys

root, pid, tier = sys.argv[1], sys.argv[2], sys.argv[3]
parts = sorted(glob.glob(os.path.join(root, "evidence", "parts", pid + ".*.json")))
if not parts:
    print("MACHINERY: no evidence part for", pid, file=sys.stderr)
    sys.exit(2)
docs = [json.load(open(p)) for p in parts]
first = docs[0]
cov = {
    "states": max(d["coverage"]["states"] for d in docs),
    "transitions": sum(d["coverage"]["transitions"] for d in docs),
    "traces_validated_against_impl": sum(d["coverage"]["traces_validated_against_impl"] for d in docs),
    "evaluations": sum(d["coverage"]["evaluations"] for d in docs),
    "distinct_nontrivial": max(d["coverage"]["distinct_nontrivial"] for d in docs),
    "rule": first["coverage"]["rule"]
    + " [merged over feature builds: sums for evaluations/transitions/traces, maximum over builds for states and distinct_nontrivial]",
    "samples": [s for d in docs for s in d["coverage"]["samples"]][:12],
    "exhaustive": all(d["coverage"]["exhaustive"] for d in docs),
    "builds": {d["coverage"]["build"]: {k: d["coverage"][k] for k in ("layers", "counters", "hash_sets_capped", "known_findings", "states", "distinct_nontrivial", "evaluations")} for d in docs},
}
out = {
    "property_id": pid,
    "tier": tier,
    "seed": first["seed"],
    "level": first["level"],
    "coverage": cov,
    "assumptions": sorted({a for d in docs for a in d.get("assumptions", [])}),
    "wall_s": sum(d["wall_s"] for d in docs),
    "violations": sum(d.get("violations", 0) for d in docs),
}
path = os.path.join(root, "evidence", pid + ".json")
json.dump(out, open(path, "w"), indent=1, ensure_ascii=False)
