#!/usr/bin/env python3
"""Generates /verif/MANIFEST.json from the table below (single source of truth).
A property is claimed only when its check exists in harness/src/props/."""
import json, os

ROOT = os.path.dirname(os.path.abspath(__file__))

TECH = "bounded-exhaustive enumeration of {what} on the real code against {oracle} (stateless model checking of the implementation)"

CHECKS = {
    "C10": dict(
        text="bounded-exhaustive exploration of the real escape/unescape code: every string up to length 7 (quick) / 8 (thorough) over a 13-symbol alphabet of escaping-relevant characters, every character reference of every code point in nine spellings, every scalar value through the three escape functions (alone and next to special characters), every &name; over the letters of the predefined names, against an independent reference un-escaper and the round-trip / no-forbidden-byte / borrowed laws",
        note="small-scope hypothesis: strings longer than the bound and characters outside the alphabet are not explored; escape-html table not built",
        technique=TECH.format(what="input strings and character references", oracle="an independent reference un-escaper"),
    ),
}

CHECKS.update({
    "C01": dict(
        text="every input of five exhaustive layers (all strings <=7/8 bytes over the 14-byte markup alphabet; the same <=5/6 x all 128 configurations; all sequences of <=5/6 multi-byte atoms; construct-specific contexts with and without BOM; the sample documents x 128 configurations) is read by the real borrowing reader and compared event by event (kind, raw content, name/target, error variant and payload, positions) with an independent whole-input reference lexer plus a model of the seven switches; both feature builds",
        note="small-scope hypothesis; random/grammar-generated documents of unbounded shape are not sampled (different family); two interpretation points the documentation leaves open are tolerated both ways (all-blank end-tag content with name trimming; comment ending in `-` under check_comments); open known findings F7, F8",
        technique=TECH.format(what="input byte strings x reader configurations", oracle="an independent reference lexer + configuration model"),
    ),
    "C02": dict(
        text="deviation-bounded schedule exploration: every way of cutting each short input (all strings <=5/6 over the markup alphabet, atom sequences, construct contexts with BOM variants) into consecutive pieces (all 2^(n-1) cut sets up to 8/11 bytes, <=2/3 cuts beyond, uniform piece sizes), for the buffered and the hand-polled async reader, the latter with every placement of <=1/2 Poll::Pending answers; each run must equal the borrowing reader's trace (events, errors, both positions after every call, two calls after Eof); the carried scanner state of ElementParser/PiParser is also driven directly over every 3-piece split",
        note="first piece >= 4 bytes when the input starts with a BOM/UTF-16 signature (stated exception); no real tokio runtime, no cancellation of futures; the borrowing reader's own correctness is C01's business",
        technique="exhaustive enumeration of environment schedules (chunk boundaries, Pending placements) up to a deviation bound on the real readers, differential against the slice reader (stateless model checking with a controlled environment)",
    ),
    "C16": dict(
        text="for every input of layers A (<=6/7 bytes), C, D and all 128 configurations the real reader's stream is compared with the documented transformation of its own neutral-configuration stream, including the buffer position after every source construct",
        note="the neutral run is taken as the document's meaning (C01 checks it); open known finding F7 (empty Text with trim_text_end only)",
        technique=TECH.format(what="inputs x all 128 configurations", oracle="the documented transformation of the implementation's own neutral run (metamorphic oracle)"),
    ),
})

CHECKS.update({
    "C03": dict(
        text="totality sweep under catch_unwind with debug assertions and overflow checks on: every string over all 256 byte values up to length 2 (x128 configurations) and 3 (x3), every string <=5/6 over the markup alphabet x128 configurations, atom sequences and construct contexts, through Reader and NsReader over slice, buffered (1-byte pieces, whole) and hand-polled async sources; per execution: no panic, Eof within 2*len+3 calls, Eof sticky after Eof / syntax error, positions monotone and bounded, error_position <= buffer_position, every payload accessor of every event invoked",
        note="in-memory sources never fail (I/O faults are C18); random/mutated long inputs are not sampled",
        technique=TECH.format(what="input byte strings (full byte alphabet) x configurations x source kinds", oracle="totality invariants checked on every call"),
    ),
    "C04": dict(
        text="operation-history exploration: for every document of <=5/6 tokens over {<a> <ab> <х/> </a> </ab> </a_> </х> x </a+form-feed>} and each of the 16 initial settings of the four related switches, every history of read_event calls interleaved with <=2/3 switch flips through config_mut() is walked as a prefix-sharing tree over clones of the real reader and compared call by call (event or Mismatched/Unmatched error with payload, buffer and error position) with a Vec<Vec<u8>> stack model",
        note="names are drawn from a 3-name pool chosen to be prefixes of each other; text trimming/comment checks kept off (irrelevant to the stack)",
        technique="exhaustive depth-bounded exploration of operation histories (reads x configuration flips) over clones of the real reader against a reference stack model",
    ),
    "C08": dict(
        text="self-consistency on every input of layers A (<=6/7 bytes), C, D (with BOM variants), E: the bytes between the positions before and after each successful read are exactly the event rendered with its fixed delimiters, spans tile the input, Eof position is the length, Writer::write_event over the read events reproduces the input (minus BOM, DOCTYPE keyword canonicalised); the same span identity for the buffered reader on every <=1/2-cut schedule",
        note="neutral configuration with check_comments off/on as the property states; no reference lexer involved",
        technique=TECH.format(what="input byte strings (and cut schedules for the buffered source)", oracle="a span/rendering self-consistency invariant and the real Writer"),
    ),
})

CHECKS.update({
    "C18": dict(
        category="fault_enumeration",
        text="exhaustive fault-point enumeration: for every document of layers A (<=5/6 bytes), C, D and the six smallest sample files, every chunking in {1,2,3,whole}, three configurations and both streaming sources (buffered, hand-polled async), the fault-free run fixes the number N of refill calls; every index i<N is then used for Interrupted (single, every pair i<j, three consecutive) and for a hard error of two kinds; interrupts must leave the complete trace unchanged, a hard error must give an exact prefix of the fault-free trace followed by Error::Io of that kind",
        note="nothing is asserted about calls after an I/O error (not stated by the property); deviation bound 2 for arbitrary interrupt placements, 3 for consecutive ones",
        technique="exhaustive enumeration of fault points and fault sequences up to a deviation bound over a scripted BufRead/AsyncBufRead, differential against the fault-free run",
    ),
})

CHECKS.update({
    "C05": dict(
        text="operation-history exploration of the real NsReader: a document family with declarations, re-declarations, un-declarations and shadowing on three nesting levels plus a following sibling (every declaration set of size <=1/<=2 on the outer elements), x expand_empty on/off x slice / buffered / async sources x EVERY consumer history (read_event / read_resolved_event / read_to_end / read_text at each Start); after every call the complete observable namespace state (six probe names as element and attribute, prefixes(), the event's own name and attribute, ResolveResult, has_nil) is compared with a scope chain computed from the document tree",
        note="well-formed documents by construction; directly after a skip both the element's own scope and its parent's are accepted (the documentation fixes the scope only from the next event on); defect F1 found by this check was repaired (fix: commit e2f09fe)",
        technique="exhaustive exploration of consumer call histories over a generated document family on the real NsReader against a reference scope-chain model",
    ),
    "C12": dict(
        text="for every well-formed token document (<=6/7 tokens over 11 tokens incl. look-alike end tags inside comment/CDATA, blank before '>', nested same names) and every truncation of it at every byte, for EVERY start tag and each of 32 trimming / expansion / end-name trimming / end-name checking configurations, the reader is advanced to the Start and read_to_end / read_text / read_to_end_into (piece 1,2,whole) / read_to_end_into_async (piece 1, whole, thorough: every single Pending placement) is called; span, read_text text, all following events+positions versus an uninterrupted run, and Config before/after are compared with the token structure; unclosed input must give Err with the configuration restored",
        note="names a/b only; with trim_markup_names_in_closing_tags off, documents containing `</a >` are skipped",
        technique="exhaustive enumeration of documents x start events x configurations x source schedules on the real readers against a token-structure oracle",
    ),
})

CHECKS.update({
    "C11": dict(
        text="every string <=7/9 over {space tab = \" ' a b /} as a whole attribute area and behind a tag name, in XML/HTML mode with/without duplicate checks (8 modes); every ASCII byte pair in blank-sensitive positions of five templates; every ordered list of <=4 attributes from a pool of 6 well-formed + 6 faulty items; the real iterator's item sequence (key bytes, value bytes, error variant + positions, then None three more times) must equal that of a reference grammar written from the AttrError documentation (error and recovery positions)",
        note="two pinned expectations (first non-blank byte belongs to the key; a key is 'seen' once accepted); defect F2 found by this check was repaired (fix: commit 4120184)",
        technique=TECH.format(what="attribute-area strings x 8 iteration modes", oracle="a reference attribute grammar"),
    ),
})

CHECKS.update({
    "C09": dict(
        text="(a) every sequence of <=4/5 event specifications from a 32-item pool covering all ten event kinds with hostile payloads, built through the public constructors, written and read back; (b) every string <=5/6 over 11 markup-heavy characters as attribute value, text, CDATA (splitting constructor) and comment payload; (c) the BytesStart edit machine: every sequence of <=5/6 operations (set_name, push/extend/clear/with_attributes, to_owned/borrow/into_owned) checked against a (name, attrs) model after every step; (d) ElementWriter call sequences x finishers x indent settings; (e) the async writer over a scripted AsyncWrite with every placement of <=2/3 Pending / short-write deviations must produce the sync writer's bytes",
        note="constructor preconditions honoured (XML names, no `?>` in PI content, no double quote in Decl arguments, balanced DOCTYPE body); payload pool is fixed",
        technique="exhaustive enumeration of event/builder-call sequences and write schedules on the real Writer/Reader against a canonical-event model",
    ),
})

CHECKS.update({
    "C06": dict(
        text="for each of 23 derive(Serialize, Deserialize) types covering every documented mapping row, every value of the cartesian product of small hostile field domains, and every string <=3/4 over 14 markup/blank characters in each payload position of each type, x 3 quote levels x indent x expand-empty x root renaming: to_string succeeds and from_str and from_reader of the output equal the value; both feature builds",
        note="the type family and the value domains are fixed; documented exclusions honoured (leading/trailing blanks in element/text strings, empty simple-list items, prefixed names); open known findings F5 (empty string in a text position without default) and F6 (blank inside a $text list item); defect F9 found by this check was repaired (fix: commit a5f8907)",
        technique="bounded-exhaustive enumeration of values of a fixed type family x serializer configurations through the real serializer and deserializer (round-trip oracle)",
    ),
    "C13": dict(
        text="every value of the C06 family, every string <=3/4 over {< > & ' \" ] - NUL newline space a} in every payload position INCLUDING out-of-domain strings, and 92 out-of-domain cases (18 hostile names as map key / root name / run-time field name / struct name, markup-named unit variants in four positions, Option without skip, nested sequences, tuples, bytes, unit, top-level primitives) x 24 serializer configurations: the call returns Err or the output is read by Reader with all checks on without error, properly nested, attribute lists iterate, every name satisfies an independent XML Name predicate, and the markup skeleton equals that of the same value with a harmless same-shape placeholder payload (no injection)",
        note="refusing a value is allowed by this property; defect F4 found by this check was repaired (fix: commit 3081cc7)",
        technique="bounded-exhaustive enumeration of values/payloads/names through the real serializer, judged by the real strict reader, an independent Name predicate and a skeleton-invariance (metamorphic) oracle",
    ),
})

CHECKS.update({
    "C07": dict(
        text="token soup: every sequence of <=4/5 tokens over 27 tokens (tags of names a,b,c, text, CDATA incl. empty, comment, DOCTYPE, PI, known/unknown entity, xsi:nil unbound and bound to the XSI namespace on start and empty tags, duplicate / value-less / unclosable attributes), bare and wrapped in a root, x 34 target types (derived structs/enums reaching every deserializer path, bounded sequence and map collectors, hand-written lazy visitors) x from_str and from_reader; documents in two non-UTF-8 encodings; every truncation at every byte of every plain serialization of the C06 value set; all under catch_unwind with a 20 s watchdog and bounded collectors, so panics, endless sequences and hangs are violations",
        note="target family fixed; open known finding F11 (visitor that does not drain its MapAccess); defects F3 and F10 found by this check were repaired (fix: commits 94d1156, bda524f)",
        technique="bounded-exhaustive enumeration of token sequences x target types through the real deserializer with a totality oracle (no panic / no non-termination)",
    ),
})

CHECKS.update({
    "C14": dict(
        text="differential exploration: every sequence of <=3/4 tokens over 29 tokens (bare and wrapped) x 25 owned target types x every reader schedule (whole, pieces 1/2/3/7, all cut sets up to 10 bytes, every single cut beyond), one more token level with piece sizes 1 and 7 on 8 targets, and every plain serialization of the C06 value set plus all its single-token deletions and duplications as its own type: from_str and from_reader both fail or both succeed with equal values",
        note="UTF-8 documents only (as stated); a panic on either side counts as failure here (C07 owns panics)",
        technique="exhaustive enumeration of documents x target types x reader chunk schedules, differential from_str vs from_reader on the real deserializer",
    ),
})

CHECKS.update({
    "C15": dict(
        text="for every value of the C06 family whose plain serialization round-trips, every information-preserving rewrite (comment/PI at every position outside tags and references, blanks between markup in element-only content, text -> CDATA / two CDATA sections at every split / text+CDATA, every non-blank character -> decimal/hex reference, <x/> <-> <x></x>, attribute permutations, quote swap, blanks around =, prolog/DOCTYPE/epilog, unknown attribute, unknown first/last child) is applied at EVERY applicable site, singly and in all ordered pairs for documents up to 64/110 bytes; the rewritten document must deserialize to the same value",
        note="character references inside attribute values that read as numbers/booleans are not applied (not listed by the property; the deserializer parses those from the raw attribute text — see DESIGN observations); unknown attributes/children only where they are not data (no maps, no $value catch-alls)",
        technique="exhaustive enumeration of rewrite sites and rewrite pairs over a fixed document family, metamorphic oracle on the real deserializer",
    ),
})

CHECKS.update({
    "C19": dict(
        text="explicit-state search over clones of the real indenting Writer: BFS for indent char {space, tab} x size 0..9 over 20 event instances (all ten kinds incl. empty Text/CDATA and a final Eof), states merged by a probe-derived canonical key, explored past 160 indent characters (beyond the pre-allocated 128) and through saturation at zero; on every transition the appended bytes must be [newline indent*] + the plain writer's bytes, the prefix only before markup not following Text/CData; plus the unmerged tree of all sequences <=4/5 with read-back (events equal modulo blank-only text, payloads byte-identical), the async indenting writer vs the sync one, and for the whole C06 family the raw event streams of indented vs plain serde output and equal deserialized values",
        note="canonicalisation argument: Indentation's future depends only on should_line_break and current_indent_len, both revealed by two probe comments on a clone; the number of indent characters is not prescribed by the property and not checked",
        technique="explicit-state BFS over real Writer states with a sound canonical key, plus bounded-exhaustive sequence enumeration with read-back and a plain-writer differential oracle",
    ),
})

CHECKS.update({
    "C20": dict(
        text="for every value of a struct with an attribute, three list fields (strings incl. empty, nested structs with their own lists a and b, units) and a scalar, 0..2/3 items per list, EVERY order-preserving interleaving of its children and of the children of each nested item is deserialized without a limit and with every event_buffer_size from 1 to events+1: unlimited gives the value whose contiguous serialization (checked against to_string) was interleaved; limited gives that value or TooManyEvents, monotonically, failing whenever the limit is below a reference count of simultaneously held skipped events (the converse is measured, not demanded)",
        note="`full` build only (overlapped-lists); the reference count is written from the documentation of event_buffer_size (siblings that are not items of the list being collected are held until the parent ends; nested collections add up) and agreed with the implementation on every explored document",
        technique="exhaustive enumeration of sibling interleavings x buffer limits on the real deserializer against a reference replay-buffer count",
    ),
})

CHECKS.update({
    "C17": dict(
        text="for each of the 36 ASCII-compatible encoding_rs encodings, EVERY one- and two-byte high sequence (plus gb18030 four-byte boundaries) that decodes to one character and re-encodes to itself (about 98 000 characters in total) is packed into element/attribute names, attribute values, comment, PI, CDATA and text of documents transcoded from their UTF-8 original and labelled in the declaration; each is read from a slice and a buffered source (whole, pieces of 1,2,3,4,7), behind a line feed, for UTF-8 also behind a BOM, and via Reader::from_str: same event kinds, every payload decoded by the reader's decoder (decode and decode_into alike) and unescaped equals the original, the decoder reports the declared encoding, from_str stays UTF-8, no BOM in events; every rejected lead byte / (lead, trail) pair injected into attribute values and text (middle and end) yields an error, never replacement characters; plus the documented encoding state machine (Implicit / Explicit / BomDetected / XmlDetected): every sequence of up to 4/6 tokens over six kinds of XML declarations, look-alike PIs, text, attribute, comment, with and without BOM, through from_str / slice / buffered sources, decoder().encoding() and payload decoding compared with the model after every event",
        note="`full` build only; the four non-ASCII-compatible encodings are documented as unsupported; three-byte EUC-JP sequences and most gb18030 four-byte sequences are outside the alphabet",
        technique="exhaustive enumeration of the encodable alphabet of every supported encoding x source kinds on the real reader against the UTF-8 original (transcoding differential); explicit enumeration of token sequences against the documented 4-state encoding machine",
    ),
})


# Layers added in round 4 (size thresholds, histories on one object); appended to the level text.
S_NOTE = "size-threshold layer: templates with repeat slots whose counts range over every value of a dense prefix and over 2^j-2..2^j+2 for every j up to the bound"
EXTRA = {
    "C01": "; plus " + S_NOTE + " (29 templates: names, texts, blank runs, bodies, runs of delimiter look-alikes, nesting, sibling and attribute counts; up to 2^10/2^16) on the slice reader and through the buffered reader (pieces 1, 7, 64, ...)",
    "C02": "; plus the stretch templates under uniform pieces around the powers of two (up to 8192) and every single cut next to a pattern change",
    "C03": "; plus the stretch templates on all eight reader variants and depth/count templates up to 2^16+2 (open elements, siblings, attributes, declarations) incl. NsReader",
    "C04": "; the same walk with the three names stretched to 2..65537 bytes",
    "C05": "; plus every document with tab / LF / CR LF TAB / two blanks in front of every attribute, and representative documents inside 1..65538 plain wrapper elements and 1..300/1100 wrappers that each declare a new prefix",
    "C06": "; plus filler^p.item.filler^q strings (p<=40/130, q around powers of two, 12 items incl. U+FEFF) in every payload position",
    "C07": "; plus targets whose visitors consume nothing (zero-length arrays, empty tuple structs) as map values and sequence items, tuples of units, and a nesting soup (all sequences <=6/8 over six nesting tokens x 14 skipping targets)",
    "C08": "; plus the stretch templates (every markup kind through every small length and around every power of two up to 2^13/2^16) incl. read -> write",
    "C09": "; the BytesStart edit machine starts from owned and borrowed events (new, from_content, read by the Reader) and can continue on borrow()",
    "C10": "; plus numeric references with 0..40/130 leading zeros x 210 significant-digit strings (values that wrap to a valid scalar modulo 2^8..2^128), and one or two special items at every position of strings of every length <=72/300",
    "C11": "; plus 12 stretch shapes (n distinct attributes and a duplicate of the first/middle/last, keys and values of n bytes, runs of blanks / of the other quote)",
    "C12": "; plus six stretch shapes up to 2^16+2 (same-name nesting depth, child count, look-alike end tags, blanks) and histories on ONE reader (reads, skips, configuration flips interleaved, <=4/6 operations) compared across the slice, buffered and async readers",
    "C13": "; plus long payloads filler^p.hostile.filler^q with p up to 2^13+2/2^16+2 and non-ASCII characters in the alphabet",
    "C14": "; plus 14 stretched document templates x 10 targets x piece sizes around the powers of two, and namespace scopes under skips (xsi re-bound inside skipped content, xsi:nil afterwards)",
    "C15": "; the string pool contains U+FEFF inside a string",
    "C16": "; plus the stretch templates x all 128 configurations (slice) and x 16 (buffered, pieces 7 and 64)",
    "C17": "; plus every sampled character as the FIRST character of every payload (incl. U+FEFF) and long payloads (1000..65537 bytes, shifted by 0..3 bytes)",
    "C18": "; hard errors of kind Other, BrokenPipe, UnexpectedEof and one of 18 kinds in rotation (all 18 on the shortest inputs); 17 and 40 consecutive interrupts; an interrupt before every piece; the stretch templates with pieces 7, 64, whole",
    "C19": "; the writer alphabet has blank-only Text and CDATA events",
    "C20": "; plus five long-list shapes with up to 2^12+2/2^16+2 items at the decisive limits, from_str and from_reader",
}
for _k, _v in EXTRA.items():
    CHECKS[_k]["text"] += _v

# Rounds 5 and 6 (sibling entry points, consumer behaviour, error side, rare inputs); see DESIGN.md section 4.
EXTRA2 = {
    "C01": "; every spelling of x/X m/M l/L behind `<?` (declaration vs PI)",
    "C02": "; ten consumer buffer policies (cleared / never cleared / reset to bytes that look like half a terminator); byte classes; UTF-16 BOM prefixes",
    "C03": "; raw reads through Reader::stream() after every event (io::Read and multi-poll AsyncRead::read_exact)",
    "C04": "; from every Start, on clones, read_to_end / read_text must agree with the stack model",
    "C05": "; the generic NsReader::resolve compared with the specialised calls; two prefixes bound to the XSI namespace",
    "C06": "; to_writer, to_utf8_io_writer into a one-byte sink and to_string_with_root must agree with to_string; u64/usize in simple-type position, infinities",
    "C07": "; prolog soup, char targets, prefixed elements, tokens <!--> and &#xD800;",
    "C08": "; raw reads through stream() return the next input bytes and advance the position by their number",
    "C09": "; (&str, Cow<str>) attribute conversions, BytesCData::*escape conversions, every ElementWriter call sequence through the async methods under sink deviations",
    "C10": "; a catch-all entity resolver that must never be asked about character references",
    "C11": "; BytesStart::try_get_attribute against the grammar",
    "C12": "; the skipping calls on an NsReader (also over content a resolver would reject); a user buffer that is never cleared",
    "C13": "; strings written through Serializer::collect_str; form feed",
    "C14": "; lists as items of element sequences; text-only unknown elements followed by text",
    "C15": "; custom-entity rewrite read through the resolver-taking constructors; DEL/NEL as character references",
    "C16": "; every spelling of the xml target",
    "C17": "; BytesCData::*escape().unescape() in every encoding",
    "C18": "; after a hard error the run continues: every event returned later must be an event of the fault-free run at the same position",
    "C19": "; a whole-output positional rule (tokens of the plain output from the reference lexer) on writer sequences, serde values and ElementWriter call sequences",
    "C20": "; xsi:nil elements and scalar $value enum elements at every position; same-name nesting with different attributes; limits up to usize::MAX",
}
for _k, _v in EXTRA2.items():
    CHECKS[_k]["text"] += _v

PENDING_REASON = "check not built yet (work in progress; see DESIGN.md §9 for the order of work)"

ALL = ["C%02d" % i for i in range(1, 21)]


def main():
    have = {f[:-3].upper() for f in os.listdir(os.path.join(ROOT, "harness/src/props")) if f.startswith("c") and f.endswith(".rs")}
    checks = []
    na = []
    for pid in ALL:
        c = CHECKS.get(pid)
        if c and pid in have and not c.get("disabled"):
            checks.append({
                "property_id": pid,
                "quick_cmd": "./check %s quick" % pid,
                "thorough_cmd": "./check %s thorough" % pid,
                "evidence_file": "evidence/%s.json" % pid,
                "replay_cmd_template": "./check replay {path}",
                "engine": "qxmc",
                "level_claimed": {
                    "category": c.get("category", "model_checking"),
                    "text": c["text"],
                    "design_ref": "DESIGN.md §4 %s" % pid,
                },
                "level_note": c["note"],
                "technique": c["technique"],
            })
        else:
            na.append({"property_id": pid, "reason": (c or {}).get("disabled") or PENDING_REASON})
    m = {
        "version": 1,
        "setup_cmd": "./check build",
        "hooks": {
            "guard": "quick_xml_verif",
            "enable": "no source hooks are needed: every anchored mechanism is reachable through the public API; the guard name (--cfg quick_xml_verif) is reserved and unused",
            "baseline_off_cmd": "cd /repo && cargo test --workspace --no-fail-fast --offline",
            "source_commits": [],
            "add_only": True,
        },
        "engines": [{
            "name": "qxmc",
            "path": "harness/",
            "serves_properties": [c["property_id"] for c in checks],
            "kind_free_text": "stateless bounded-exhaustive explorer of the real quick-xml code (Rust, path dependency on /repo, two feature builds): lexicographic and atom enumerators, deviation-bounded environment explorer (chunking / Pending / I/O faults), prefix-sharing history search over clones of real objects; every execution is compared with an independent reference model or a metamorphic twin",
        }],
        "checks": checks,
        "not_applicable": na,
        "notes": "Family: model checking (bounded-exhaustive exploration of the implementation). quick-xml is sequential, so loom/shuttle have nothing to intercept; see DESIGN.md §1.",
    }
    json.dump(m, open(os.path.join(ROOT, "MANIFEST.json"), "w"), indent=1, ensure_ascii=False)
    print("claimed:", [c["property_id"] for c in checks])


if __name__ == "__main__":
    main()
