//! Input spaces shared by the reader properties (DESIGN §4, layers A–E). Every space is a finite,
//! indexable set: `total` elements, `get(i)` builds element `i`.

use crate::common::*;
use serde_json::{json, Value};

pub struct Space {
    pub name: String,
    pub desc: Value,
    pub total: u64,
    gen: Box<dyn Fn(u64, &mut Vec<u8>) + Sync + Send>,
}

impl Space {
    pub fn get(&self, i: u64, out: &mut Vec<u8>) {
        (self.gen)(i, out)
    }
}

/// Σm: the markup alphabet.
pub const SIGMA_M: &[u8] = b"<>/!-[]?\"'= aD";

/// Layer A: all strings of length 0..=max_len over `alpha`.
pub fn raw(name: &str, alpha: &'static [u8], max_len: u32) -> Space {
    let k = alpha.len() as u64;
    Space {
        name: name.to_string(),
        desc: json!({"kind": "all byte strings", "alphabet": lossy(alpha), "max_len": max_len}),
        total: count_upto(k, max_len),
        gen: Box::new(move |i, out| {
            let mut d = Vec::with_capacity(max_len as usize);
            decode_upto(k, max_len, i, &mut d);
            out.clear();
            out.extend(d.iter().map(|&x| alpha[x as usize]));
        }),
    }
}

pub const ATOMS_C: &[&[u8]] = &[
    b"<![CDATA[", b"]]>", b"<!--", b"-->", b"<!DOCTYPE", b"<!doctype", b"<?", b"?>", b"<?xml", b"<a", b"</a", b">",
    b"/>", b" b=\"", b"\"", b"'", b"<", b"]", b"-", b"?", b" ", b"x",
];

/// Layer C: all sequences of 0..=max_len atoms.
pub fn atoms(name: &str, atoms: &'static [&'static [u8]], max_len: u32) -> Space {
    let k = atoms.len() as u64;
    Space {
        name: name.to_string(),
        desc: json!({"kind": "all atom sequences", "atoms": atoms.iter().map(|a| lossy(a)).collect::<Vec<_>>(), "max_len": max_len}),
        total: count_upto(k, max_len),
        gen: Box::new(move |i, out| {
            let mut d = Vec::with_capacity(max_len as usize);
            decode_upto(k, max_len, i, &mut d);
            out.clear();
            for &x in &d {
                out.extend_from_slice(atoms[x as usize]);
            }
        }),
    }
}

/// Layer D: `bom? · prefix · w · tail`, `w` exhaustive over `alpha` up to `max_len`.
pub fn context(
    name: &str,
    prefixes: &'static [&'static [u8]],
    alpha: &'static [u8],
    max_len: u32,
    tails: &'static [&'static [u8]],
    with_bom: bool,
) -> Space {
    let k = alpha.len() as u64;
    let words = count_upto(k, max_len);
    let np = prefixes.len() as u64;
    let nt = tails.len() as u64;
    let nb = if with_bom { 2 } else { 1 };
    Space {
        name: name.to_string(),
        desc: json!({
            "kind": "context: [BOM] prefix . w . tail",
            "prefixes": prefixes.iter().map(|a| lossy(a)).collect::<Vec<_>>(),
            "w_alphabet": lossy(alpha), "w_max_len": max_len,
            "tails": tails.iter().map(|a| lossy(a)).collect::<Vec<_>>(),
            "bom_variants": nb,
        }),
        total: words * np * nt * nb,
        gen: Box::new(move |mut i, out| {
            let b = i % nb;
            i /= nb;
            let t = i % nt;
            i /= nt;
            let p = i % np;
            i /= np;
            let mut d = Vec::with_capacity(max_len as usize);
            decode_upto(k, max_len, i, &mut d);
            out.clear();
            if b == 1 {
                out.extend_from_slice(&[0xEF, 0xBB, 0xBF]);
            }
            out.extend_from_slice(prefixes[p as usize]);
            out.extend(d.iter().map(|&x| alpha[x as usize]));
            out.extend_from_slice(tails[t as usize]);
        }),
    }
}

/// The construct-specific context families of layer D.
pub fn contexts(wlen: impl Fn(u32) -> u32, with_bom: bool) -> Vec<Space> {
    vec![
        context("D.cdata", &[b"<![CDATA["], b"]>a<[", wlen(6), &[b"", b"]]>", b"]]>x", b"]]><b>"], with_bom),
        context("D.comment", &[b"<!--"], b"->a!", wlen(7), &[b"", b"-->", b"-->x", b"--><b>"], with_bom),
        context("D.pi", &[b"<?"], b"?>xml ", wlen(6), &[b"", b"?>", b"?>x", b"?><b>"], with_bom),
        context(
            "D.doctype",
            &[b"<!DOCTYPE", b"<!doctype", b"<!DocType", b"<!DOCTYP"],
            b"<> a[\"",
            wlen(6),
            &[b"", b">", b">x", b"><b>"],
            with_bom,
        ),
        context("D.tag", &[b"<a", b"</a"], b"\"'>/ =b", wlen(7), &[b"", b">", b">x", b"><b>"], with_bom),
    ]
}

/// Layer M: byte-order-mark sequences that are NOT at the start of the input (directly behind markup
/// or text): they are ordinary character data there and must be reported and counted as such.
pub fn mid_bom(max_len: u32) -> Space {
    context(
        "M.bom_not_at_start",
        &[
            b"<a>\xEF\xBB\xBF",
            b"<a/>\xEF\xBB\xBF",
            b"</a>\xEF\xBB\xBF",
            b"<!--c-->\xEF\xBB\xBF",
            b"<?p?>\xEF\xBB\xBF",
            b"x\xEF\xBB\xBF",
            b"<a> \xEF\xBB\xBF",
            b"<a>\xFF\xFE",
            b"<a>\xFE\xFF",
            b"\xEF\xBB\xBF<a>\xEF\xBB\xBF",
        ],
        b"<a/> x",
        max_len,
        &[b"", b"</a>"],
        false,
    )
}

/// Layer W: which bytes count as XML white space. Every pair of byte values (b1, b2), all 65 536
/// of them, is placed where blanks are significant: after the DOCTYPE keyword, after a name in
/// start / end tags, after a PI target / the `xml` of a declaration, and around text.
pub fn ws_class() -> Space {
    const TEMPLATES: [(&[u8], &[u8], &[u8]); 8] = [
        (b"<!DOCTYPE", b"", b"x>"),
        (b"</a", b"", b">"),
        (b"<a>x</a", b"", b">y"),
        (b"<a", b"", b"c='1'>"),
        (b"<?p", b"", b"d?>"),
        (b"<?xml", b"", b"?>"),
        (b"<a>", b"x", b"</a>"),
        (b"", b"", b"<a/>"),
    ];
    let nt = TEMPLATES.len() as u64;
    Space {
        name: "W.ws_class".to_string(),
        desc: json!({"kind": "every byte pair (b1,b2) in blank-sensitive positions", "templates": TEMPLATES.iter().map(|t| format!("{}{{b1}}{}{{b2}}{}", lossy(t.0), lossy(t.1), lossy(t.2))).collect::<Vec<_>>()}),
        total: nt * 65536,
        gen: Box::new(move |i, out| {
            let t = TEMPLATES[(i % nt) as usize];
            let b = i / nt;
            out.clear();
            out.extend_from_slice(t.0);
            out.push((b >> 8) as u8);
            out.extend_from_slice(t.1);
            out.push((b & 0xff) as u8);
            out.extend_from_slice(t.2);
        }),
    }
}

/// Layer E: the repository's sample documents (top level of tests/documents).
pub fn corpus() -> Vec<(String, Vec<u8>)> {
    let dir = "/repo/tests/documents";
    let mut v = Vec::new();
    if let Ok(rd) = std::fs::read_dir(dir) {
        for e in rd.flatten() {
            let p = e.path();
            if p.is_file() {
                if let Ok(b) = std::fs::read(&p) {
                    v.push((p.file_name().unwrap().to_string_lossy().to_string(), b));
                }
            }
        }
    }
    v.sort();
    v
}
