//! Input spaces shared by the reader properties (DESIGN §4, layers A–E). Every space is a finite,
//! indexable set: `total` elements, `get(i)` builds element `i`.

use crate::common::*;
use serde_json::{json, Value};

pub struct Space {
    pub name: String,
    pub desc: Value,
    pub total: u64,
    gen: Box<dyn Fn(u64, &mut Vec<u8>) + Sync + Send>,
}

impl Space {
    pub fn get(&self, i: u64, out: &mut Vec<u8>) {
        (self.gen)(i, out)
    }
}

/// Σm: the markup alphabet.
pub const SIGMA_M: &[u8] = b"<>/!-[]?\"'= aD";

/// Layer A: all strings of length 0..=max_len over `alpha`.
pub fn raw(name: &str, alpha: &'static [u8], max_len: u32) -> Space {
    let k = alpha.len() as u64;
    Space {
        name: name.to_string(),
        desc: json!({"kind": "all byte strings", "alphabet": lossy(alpha), "max_len": max_len}),
        total: count_upto(k, max_len),
        gen: Box::new(move |i, out| {
            let mut d = Vec::with_capacity(max_len as usize);
            decode_upto(k, max_len, i, &mut d);
            out.clear();
            out.extend(d.iter().map(|&x| alpha[x as usize]));
        }),
    }
}

pub const ATOMS_C: &[&[u8]] = &[
    b"<![CDATA[", b"]]>", b"<!--", b"-->", b"<!DOCTYPE", b"<!doctype", b"<?", b"?>", b"<?xml", b"<a", b"</a", b">",
    b"/>", b" b=\"", b"\"", b"'", b"<", b"]", b"-", b"?", b" ", b"x",
];

/// Layer C: all sequences of 0..=max_len atoms.
pub fn atoms(name: &str, atoms: &'static [&'static [u8]], max_len: u32) -> Space {
    let k = atoms.len() as u64;
    Space {
        name: name.to_string(),
        desc: json!({"kind": "all atom sequences", "atoms": atoms.iter().map(|a| lossy(a)).collect::<Vec<_>>(), "max_len": max_len}),
        total: count_upto(k, max_len),
        gen: Box::new(move |i, out| {
            let mut d = Vec::with_capacity(max_len as usize);
            decode_upto(k, max_len, i, &mut d);
            out.clear();
            for &x in &d {
                out.extend_from_slice(atoms[x as usize]);
            }
        }),
    }
}

/// Layer D: `bom? · prefix · w · tail`, `w` exhaustive over `alpha` up to `max_len`.
pub fn context(
    name: &str,
    prefixes: &'static [&'static [u8]],
    alpha: &'static [u8],
    max_len: u32,
    tails: &'static [&'static [u8]],
    with_bom: bool,
) -> Space {
    let k = alpha.len() as u64;
    let words = count_upto(k, max_len);
    let np = prefixes.len() as u64;
    let nt = tails.len() as u64;
    let nb = if with_bom { 2 } else { 1 };
    Space {
        name: name.to_string(),
        desc: json!({
            "kind": "context: [BOM] prefix . w . tail",
            "prefixes": prefixes.iter().map(|a| lossy(a)).collect::<Vec<_>>(),
            "w_alphabet": lossy(alpha), "w_max_len": max_len,
            "tails": tails.iter().map(|a| lossy(a)).collect::<Vec<_>>(),
            "bom_variants": nb,
        }),
        total: words * np * nt * nb,
        gen: Box::new(move |mut i, out| {
            let b = i % nb;
            i /= nb;
            let t = i % nt;
            i /= nt;
            let p = i % np;
            i /= np;
            let mut d = Vec::with_capacity(max_len as usize);
            decode_upto(k, max_len, i, &mut d);
            out.clear();
            if b == 1 {
                out.extend_from_slice(&[0xEF, 0xBB, 0xBF]);
            }
            out.extend_from_slice(prefixes[p as usize]);
            out.extend(d.iter().map(|&x| alpha[x as usize]));
            out.extend_from_slice(tails[t as usize]);
        }),
    }
}

/// The construct-specific context families of layer D.
pub fn contexts(wlen: impl Fn(u32) -> u32, with_bom: bool) -> Vec<Space> {
    vec![
        context("D.cdata", &[b"<![CDATA["], b"]>a<[", wlen(6), &[b"", b"]]>", b"]]>x", b"]]><b>"], with_bom),
        context("D.comment", &[b"<!--"], b"->a!", wlen(7), &[b"", b"-->", b"-->x", b"--><b>"], with_bom),
        context("D.pi", &[b"<?"], b"?>xml ", wlen(6), &[b"", b"?>", b"?>x", b"?><b>"], with_bom),
        context(
            "D.doctype",
            &[b"<!DOCTYPE", b"<!doctype", b"<!DocType", b"<!DOCTYP"],
            b"<> a[\"",
            wlen(6),
            &[b"", b">", b">x", b"><b>"],
            with_bom,
        ),
        context("D.tag", &[b"<a", b"</a"], b"\"'>/ =b", wlen(7), &[b"", b">", b">x", b"><b>"], with_bom),
    ]
}

/// Declaration or processing instruction? Only the exact target `xml` makes a declaration: every
/// spelling of x/X m/M l/L (and look-alikes) behind `<?`.
pub fn decl_case(max_len: u32) -> Space {
    context("D.decl_case", &[b"<?", b"<a/><?"], b"xXmMlL ?", max_len, &[b"?>", b" v?>", b"?>x"], false)
}

/// Layer M: byte-order-mark sequences that are NOT at the start of the input (directly behind markup
/// or text): they are ordinary character data there and must be reported and counted as such.
pub fn mid_bom(max_len: u32) -> Space {
    context(
        "M.bom_not_at_start",
        &[
            b"<a>\xEF\xBB\xBF",
            b"<a/>\xEF\xBB\xBF",
            b"</a>\xEF\xBB\xBF",
            b"<!--c-->\xEF\xBB\xBF",
            b"<?p?>\xEF\xBB\xBF",
            b"x\xEF\xBB\xBF",
            b"<a> \xEF\xBB\xBF",
            b"<a>\xFF\xFE",
            b"<a>\xFE\xFF",
            b"\xEF\xBB\xBF<a>\xEF\xBB\xBF",
        ],
        b"<a/> x",
        max_len,
        &[b"", b"</a>"],
        false,
    )
}

/// Layer W: which bytes count as XML white space. Every pair of byte values (b1, b2), all 65 536
/// of them, is placed where blanks are significant: after the DOCTYPE keyword, after a name in
/// start / end tags, after a PI target / the `xml` of a declaration, and around text.
pub fn ws_class() -> Space {
    const TEMPLATES: [(&[u8], &[u8], &[u8]); 8] = [
        (b"<!DOCTYPE", b"", b"x>"),
        (b"</a", b"", b">"),
        (b"<a>x</a", b"", b">y"),
        (b"<a", b"", b"c='1'>"),
        (b"<?p", b"", b"d?>"),
        (b"<?xml", b"", b"?>"),
        (b"<a>", b"x", b"</a>"),
        (b"", b"", b"<a/>"),
    ];
    let nt = TEMPLATES.len() as u64;
    Space {
        name: "W.ws_class".to_string(),
        desc: json!({"kind": "every byte pair (b1,b2) in blank-sensitive positions", "templates": TEMPLATES.iter().map(|t| format!("{}{{b1}}{}{{b2}}{}", lossy(t.0), lossy(t.1), lossy(t.2))).collect::<Vec<_>>()}),
        total: nt * 65536,
        gen: Box::new(move |i, out| {
            let t = TEMPLATES[(i % nt) as usize];
            let b = i / nt;
            out.clear();
            out.extend_from_slice(t.0);
            out.push((b >> 8) as u8);
            out.extend_from_slice(t.1);
            out.push((b & 0xff) as u8);
            out.extend_from_slice(t.2);
        }),
    }
}

/// Layer E: the repository's sample documents (top level of tests/documents).
pub fn corpus() -> Vec<(String, Vec<u8>)> {
    let dir = "/repo/tests/documents";
    let mut v = Vec::new();
    if let Ok(rd) = std::fs::read_dir(dir) {
        for e in rd.flatten() {
            let p = e.path();
            if p.is_file() {
                if let Ok(b) = std::fs::read(&p) {
                    v.push((p.file_name().unwrap().to_string_lossy().to_string(), b));
                }
            }
        }
    }
    v.sort();
    v
}

// ------------------------------------------------------------------------------------------------
// Layer S: size thresholds. Small-scope enumeration never produces a 130-byte name or a 1 025-byte
// comment; code with a size-dependent path (a preallocated buffer, a fast path for short inputs, a
// counter that wraps) is only reached by stretching. Every template has one or two *slots*; slot k
// is `unit_k` repeated `n_k` times and may occur several times in the template (same count). The
// counts range over a dense prefix 0..=dense plus every power of two 2^j (and round decimal sizes)
// with its two neighbours; with two slots one count ranges over the full list and the other over
// the reduced list (both ways).

pub enum Seg {
    L(&'static [u8]),
    /// slot index (0 or 1), unit
    S(u8, &'static [u8]),
}
use Seg::*;

pub struct Tmpl {
    pub name: &'static str,
    pub segs: &'static [Seg],
}

pub const STRETCH_READER: &[Tmpl] = &[
    Tmpl { name: "name x text", segs: &[L(b"<"), S(0, b"a"), L(b">"), S(1, b"x"), L(b"</"), S(0, b"a"), L(b">")] },
    Tmpl { name: "non-ascii name x blanks in end tag", segs: &[L(b"<"), S(0, b"\xC3\xA9"), L(b">"), L(b"</"), S(0, b"\xC3\xA9"), S(1, b" "), L(b">")] },
    Tmpl { name: "attr key x value", segs: &[L(b"<a "), S(0, b"k"), L(b"=\""), S(1, b"v"), L(b"\"/>t")] },
    Tmpl { name: "quoted > runs", segs: &[L(b"<a k=\""), S(0, b">"), L(b"\" j='"), S(1, b"\">"), L(b"'>t</a>")] },
    Tmpl { name: "many attributes x blanks before />", segs: &[L(b"<a"), S(0, b" k='v'"), S(1, b" "), L(b"/>")] },
    Tmpl { name: "comment body x following text", segs: &[L(b"<!--"), S(0, b"x"), L(b"-->"), S(1, b"y"), L(b"<b/>")] },
    Tmpl { name: "comment of single hyphens", segs: &[L(b"<!--"), S(0, b"- "), L(b"-->"), S(1, b"-"), L(b">")] },
    Tmpl { name: "comment hyphen run then >", segs: &[L(b"<a/><!--"), S(0, b"-"), L(b">"), S(1, b"x"), L(b"-->z")] },
    Tmpl { name: "cdata ] run x body", segs: &[L(b"<![CDATA["), S(0, b"]"), L(b">"), S(1, b"x"), L(b"]]>t")] },
    Tmpl { name: "cdata body x look-alike ends", segs: &[L(b"<![CDATA["), S(0, b"x"), S(1, b"]>]"), L(b"]]><a>")] },
    Tmpl { name: "pi target x ? run", segs: &[L(b"<?"), S(0, b"p"), L(b" "), S(1, b"?"), L(b">t")] },
    Tmpl { name: "pi body of ?x", segs: &[L(b"<?p "), S(0, b"?x"), L(b"?>"), S(1, b"<!---->")] },
    Tmpl { name: "declaration with many pseudo-attributes", segs: &[L(b"<?xml"), S(0, b" version='1.0'"), S(1, b" "), L(b"?><r/>")] },
    Tmpl { name: "doctype < x > balance", segs: &[L(b"<!DOCTYPE r "), S(0, b"<"), S(1, b">"), L(b"><r/>")] },
    Tmpl { name: "doctype internal subset", segs: &[L(b"<!DOCTYPE r ["), S(0, b"<!ENTITY e \"v>\">"), L(b"]"), S(1, b" "), L(b"><r/>")] },
    Tmpl { name: "doctype keyword blanks", segs: &[L(b"<!DOCTYPE"), S(0, b" "), S(1, b"n"), L(b">")] },
    Tmpl { name: "blanks around text", segs: &[L(b"<a>"), S(0, b" "), L(b"x"), S(1, b"\n\t"), L(b"</a>")] },
    Tmpl { name: "blank-only text x leading blanks", segs: &[S(0, b"\r\n"), L(b"<a>"), S(1, b" "), L(b"</a>")] },
    Tmpl { name: "nesting: opens x closes", segs: &[S(0, b"<a>"), S(1, b"</a>")] },
    Tmpl { name: "nesting: long names", segs: &[S(0, b"<abcdefgh>"), L(b"x"), S(1, b"</abcdefgh>")] },
    Tmpl { name: "siblings: empty x text+empty", segs: &[L(b"<r>"), S(0, b"<a/>"), S(1, b"x<b/>"), L(b"</r>")] },
    Tmpl { name: "entities in text and value", segs: &[L(b"<a k='"), S(0, b"&amp;"), L(b"'>"), S(1, b"&#x3C;"), L(b"</a>")] },
    Tmpl { name: "end tag name x blanks", segs: &[L(b"<"), S(0, b"n"), L(b">t</"), S(0, b"n"), S(1, b"\t"), L(b">")] },
    Tmpl { name: "unterminated quoted value", segs: &[L(b"<a>t</a><a k=\""), S(0, b"x>"), S(1, b"'")] },
    Tmpl { name: "unterminated comment", segs: &[L(b"t<!--"), S(0, b"x"), S(1, b"-")] },
    Tmpl { name: "unterminated cdata", segs: &[L(b"<![CDATA["), S(0, b"x"), S(1, b"]")] },
    Tmpl { name: "unterminated pi", segs: &[L(b"<?"), S(0, b"x"), S(1, b"?")] },
    Tmpl { name: "unterminated doctype", segs: &[L(b"<!DOCTYPE"), S(0, b" <"), S(1, b"> ")] },
    Tmpl { name: "bom then blanks then decl", segs: &[L(b"\xEF\xBB\xBF"), S(0, b" "), L(b"<?xml version='1.0'?>"), S(1, b"x")] },
];

/// The templates whose cost or meaning depends on depth / count / one long name: used with the large sizes.
pub const STRETCH_DEEP: &[Tmpl] = &[
    Tmpl { name: "nesting: opens x closes", segs: &[S(0, b"<a>"), S(1, b"</a>")] },
    Tmpl { name: "nesting: opens, closes, extra closes", segs: &[S(0, b"<a>"), L(b"<b xmlns='u' xmlns:p='v'><p:c/></b>"), S(0, b"</a>"), S(1, b"</a>")] },
    Tmpl { name: "siblings: empty x text+empty", segs: &[L(b"<r>"), S(0, b"<a/>"), S(1, b"x<b/>"), L(b"</r>")] },
    Tmpl { name: "name x text", segs: &[L(b"<"), S(0, b"a"), L(b">"), S(1, b"x"), L(b"</"), S(0, b"a"), L(b">")] },
    Tmpl { name: "many attributes x blanks before />", segs: &[L(b"<a"), S(0, b" k='v'"), S(1, b" "), L(b"/>")] },
    Tmpl { name: "many declarations", segs: &[L(b"<a"), S(0, b" xmlns:p='u'"), S(1, b" xmlns='v'"), L(b"><p:b/></a>")] },
    Tmpl { name: "text x comment", segs: &[L(b"<a>"), S(0, b"t"), L(b"<!--"), S(1, b"c"), L(b"--></a>")] },
];

/// Stretch templates for the serde properties (field names a, b, c, @x, $text of the C07/C14 targets).
pub const STRETCH_SERDE: &[Tmpl] = &[
    Tmpl { name: "attribute value x element text", segs: &[L(b"<r x=\""), S(0, b"v"), L(b"\"><a>"), S(1, b"t"), L(b"</a></r>")] },
    Tmpl { name: "many a items x many b items", segs: &[L(b"<r>"), S(0, b"<a>x</a>"), S(1, b"<b x=\"1\"/>"), L(b"</r>")] },
    Tmpl { name: "interleaved a/b items", segs: &[L(b"<r>"), S(0, b"<a>x</a><b x=\"1\"/>"), S(1, b"<c x=\"2\"/>"), L(b"</r>")] },
    Tmpl { name: "unknown elements skipped x blanks", segs: &[L(b"<r>"), S(0, b"<zz k=\"1\">q<y/></zz>"), L(b"<a>t</a>"), S(1, b" "), L(b"</r>")] },
    Tmpl { name: "text pieces x cdata pieces", segs: &[L(b"<r>"), S(0, b"t"), S(1, b"<![CDATA[c]]>u"), L(b"</r>")] },
    Tmpl { name: "text split by comments", segs: &[L(b"<r>"), S(0, b"t<!--c-->"), S(1, b"<?p q?>"), L(b"u</r>")] },
    Tmpl { name: "deep nesting of a", segs: &[L(b"<r>"), S(0, b"<a>"), L(b"t"), S(0, b"</a>"), S(1, b"<b x=\"1\"/>"), L(b"</r>")] },
    Tmpl { name: "deep nesting of unknown elements", segs: &[L(b"<r>"), S(0, b"<zz>"), S(1, b"q"), S(0, b"</zz>"), L(b"<a>t</a></r>")] },
    Tmpl { name: "list in attribute x list in text", segs: &[L(b"<r x=\""), S(0, b"a "), L(b"\">"), S(1, b"1 "), L(b"</r>")] },
    Tmpl { name: "long comment x long pi before content", segs: &[L(b"<r><!--"), S(0, b"c"), L(b"--><?p "), S(1, b"q"), L(b"?><a>t</a></r>")] },
    Tmpl { name: "long unknown element name x long unknown attribute", segs: &[L(b"<r "), S(1, b"k"), L(b"=\"1\"><"), S(0, b"n"), L(b"z/><a>t</a></r>")] },
    Tmpl { name: "entities in text x entities in attribute", segs: &[L(b"<r x=\""), S(1, b"&lt;"), L(b"\"><a>"), S(0, b"&amp;&#x20;"), L(b"</a></r>")] },
    Tmpl { name: "blank text around items", segs: &[L(b"<r>"), S(0, b" \n"), L(b"<a>x</a>"), S(1, b"\t"), L(b"<a>y</a></r>")] },
    Tmpl { name: "text-only unknown elements, blanks, then text", segs: &[L(b"<r>"), S(0, b"<zz>q</zz>"), S(1, b" "), L(b"t<a>x</a></r>")] },
    Tmpl { name: "text-only unknown element, blanks around a comment", segs: &[L(b"<r><zz><![CDATA[q]]></zz>"), S(0, b" "), L(b"<!--c-->"), S(1, b" "), L(b"<a>x</a></r>")] },
    Tmpl { name: "list items inside repeated elements", segs: &[L(b"<r>"), S(0, b"<a>one two  three four</a>"), L(b"<b>"), S(1, b"x "), L(b"y z</b></r>")] },
    Tmpl { name: "prolog x trailing comments", segs: &[L(b"<?xml version=\"1.0\"?>"), S(0, b"<!--p-->"), L(b"<r><a>t</a></r>"), S(1, b"<!--e-->")] },
];

/// 2^j-2 ..= 2^j+2 for lo <= j <= hi
pub fn pow_sizes(lo: u32, hi: u32) -> Vec<u32> {
    let mut v = Vec::new();
    for j in lo..=hi {
        let p = 1u32 << j;
        v.extend_from_slice(&[p - 2, p - 1, p, p + 1, p + 2]);
    }
    v
}

pub fn stretch_lists(name: &str, tmpls: &'static [Tmpl], full: Vec<u32>, red: Vec<u32>) -> Space {
    let desc = json!({
        "kind": "size thresholds: templates with two repeat slots; one count over `sizes_full`, the other over `sizes_reduced`, both ways",
        "templates": tmpls.iter().map(|t| t.name).collect::<Vec<_>>(),
        "sizes_full": full, "sizes_reduced": red,
    });
    let st = Stretch { tmpls, full, red, desc };
    Space { name: name.to_string(), desc: st.desc.clone(), total: st.total(), gen: Box::new(move |i, out| st.get(i, out, None)) }
}

pub fn size_list(dense: u32, max_pow: u32) -> Vec<u32> {
    let mut v: Vec<u32> = (0..=dense).collect();
    for j in 3..=max_pow {
        let p = 1u32 << j;
        v.extend_from_slice(&[p - 2, p - 1, p, p + 1, p + 2]);
    }
    for d in [10u32, 100, 1000, 10_000, 100_000] {
        if d <= (1 << max_pow) {
            v.extend_from_slice(&[d - 1, d, d + 1]);
        }
    }
    v.sort();
    v.dedup();
    v
}

pub fn build_tmpl(t: &Tmpl, n: [u32; 2], out: &mut Vec<u8>) {
    build_tmpl_marks(t, n, out, None)
}

/// `marks` receives the offset behind every segment (the places where the byte pattern changes).
pub fn build_tmpl_marks(t: &Tmpl, n: [u32; 2], out: &mut Vec<u8>, mut marks: Option<&mut Vec<usize>>) {
    out.clear();
    for s in t.segs {
        match s {
            L(b) => out.extend_from_slice(b),
            S(k, u) => {
                for _ in 0..n[*k as usize] {
                    out.extend_from_slice(u);
                }
            }
        }
        if let Some(m) = marks.as_deref_mut() {
            m.push(out.len());
        }
    }
}

/// Layer S over `tmpls`: full x reduced size lists, both ways.
pub struct Stretch {
    pub tmpls: &'static [Tmpl],
    pub full: Vec<u32>,
    pub red: Vec<u32>,
    pub desc: Value,
}

impl Stretch {
    pub fn new(tmpls: &'static [Tmpl], dense: u32, max_pow: u32, red_pow: u32) -> Stretch {
        let full = size_list(dense, max_pow);
        let red = size_list(3, red_pow);
        let desc = json!({
            "kind": "size thresholds: templates with two repeat slots; one count over `sizes_full`, the other over `sizes_reduced`, both ways",
            "templates": tmpls.iter().map(|t| t.name).collect::<Vec<_>>(),
            "sizes_full": format!("0..={} and 2^j-2..2^j+2 for j<={} and 10^k-1..10^k+1 ({} sizes)", dense, max_pow, full.len()),
            "sizes_reduced": format!("0..=3 and 2^j-2..2^j+2 for j<={} ({} sizes)", red_pow, red.len()),
        });
        Stretch { tmpls, full, red, desc }
    }
    pub fn total(&self) -> u64 {
        self.tmpls.len() as u64 * self.full.len() as u64 * self.red.len() as u64 * 2
    }
    pub fn case(&self, mut i: u64) -> (usize, [u32; 2]) {
        let nr = self.red.len() as u64;
        let nf = self.full.len() as u64;
        let way = i % 2;
        i /= 2;
        let r = self.red[(i % nr) as usize];
        i /= nr;
        let f = self.full[(i % nf) as usize];
        i /= nf;
        (i as usize, if way == 0 { [f, r] } else { [r, f] })
    }
    pub fn get(&self, i: u64, out: &mut Vec<u8>, marks: Option<&mut Vec<usize>>) {
        let (t, n) = self.case(i);
        build_tmpl_marks(&self.tmpls[t], n, out, marks);
    }
}

pub fn stretch(name: &str, tmpls: &'static [Tmpl], dense: u32, max_pow: u32, red_pow: u32) -> Space {
    let st = Stretch::new(tmpls, dense, max_pow, red_pow);
    Space {
        name: name.to_string(),
        desc: st.desc.clone(),
        total: st.total(),
        gen: Box::new(move |i, out| st.get(i, out, None)),
    }
}
