//! Observation of the real reader: events and errors in a comparable, hashable form.

use quick_xml::errors::{Error, IllFormedError, SyntaxError};
use quick_xml::events::Event;
use quick_xml::reader::{Config, Reader};
use serde_json::{json, Value};

use crate::common::{guarded_mut, lossy};

#[derive(Clone, PartialEq, Eq, Hash, Debug)]
pub enum E {
    Syntax(SyntaxError2),
    MissingDoctypeName,
    MissingEndTag(String),
    UnmatchedEndTag(String),
    MismatchedEndTag { expected: String, found: String },
    DoubleHyphenInComment,
    MissingDeclVersion,
    Io(std::io::ErrorKind, String),
    Other(String),
    Panic(String),
}

#[derive(Clone, Copy, PartialEq, Eq, Hash, Debug)]
pub enum SyntaxError2 {
    InvalidBangMarkup,
    UnclosedPIOrXmlDecl,
    UnclosedComment,
    UnclosedDoctype,
    UnclosedCData,
    UnclosedTag,
}

impl From<SyntaxError> for SyntaxError2 {
    fn from(e: SyntaxError) -> Self {
        match e {
            SyntaxError::InvalidBangMarkup => Self::InvalidBangMarkup,
            SyntaxError::UnclosedPIOrXmlDecl => Self::UnclosedPIOrXmlDecl,
            SyntaxError::UnclosedComment => Self::UnclosedComment,
            SyntaxError::UnclosedDoctype => Self::UnclosedDoctype,
            SyntaxError::UnclosedCData => Self::UnclosedCData,
            SyntaxError::UnclosedTag => Self::UnclosedTag,
        }
    }
}

impl E {
    pub fn from_error(e: &Error) -> E {
        match e {
            Error::Syntax(s) => E::Syntax((*s).into()),
            Error::IllFormed(i) => match i {
                IllFormedError::MissingDoctypeName => E::MissingDoctypeName,
                IllFormedError::MissingEndTag(s) => E::MissingEndTag(s.clone()),
                IllFormedError::UnmatchedEndTag(s) => E::UnmatchedEndTag(s.clone()),
                IllFormedError::MismatchedEndTag { expected, found } => E::MismatchedEndTag {
                    expected: expected.clone(),
                    found: found.clone(),
                },
                IllFormedError::DoubleHyphenInComment => E::DoubleHyphenInComment,
                IllFormedError::MissingDeclVersion(_) => E::MissingDeclVersion,
            },
            Error::Io(io) => E::Io(io.kind(), io.to_string()),
            other => E::Other(format!("{:?}", other)),
        }
    }
    pub fn is_syntax(&self) -> bool {
        matches!(self, E::Syntax(_))
    }
    pub fn is_illformed(&self) -> bool {
        matches!(
            self,
            E::MissingDoctypeName
                | E::MissingEndTag(_)
                | E::UnmatchedEndTag(_)
                | E::MismatchedEndTag { .. }
                | E::DoubleHyphenInComment
                | E::MissingDeclVersion
        )
    }
}

#[derive(Clone, PartialEq, Eq, Hash, Debug)]
pub enum Ev {
    Start(Vec<u8>, usize),
    Empty(Vec<u8>, usize),
    End(Vec<u8>),
    Text(Vec<u8>),
    CData(Vec<u8>),
    Comment(Vec<u8>),
    Decl(Vec<u8>),
    PI(Vec<u8>, usize),
    DocType(Vec<u8>),
    Eof,
    Err(E),
}

impl Ev {
    pub fn from_event(e: &Event) -> Ev {
        match e {
            Event::Start(s) => Ev::Start(s.to_vec(), s.name().as_ref().len()),
            Event::Empty(s) => Ev::Empty(s.to_vec(), s.name().as_ref().len()),
            Event::End(s) => Ev::End(s.name().as_ref().to_vec()),
            Event::Text(t) => Ev::Text(t.to_vec()),
            Event::CData(t) => Ev::CData(t.to_vec()),
            Event::Comment(t) => Ev::Comment(t.to_vec()),
            Event::Decl(d) => Ev::Decl(d.to_vec()),
            Event::PI(p) => Ev::PI(p.to_vec(), p.target().len()),
            Event::DocType(t) => Ev::DocType(t.to_vec()),
            Event::Eof => Ev::Eof,
        }
    }
    pub fn from_result(r: &Result<Event, Error>) -> Ev {
        match r {
            Ok(e) => Ev::from_event(e),
            Err(e) => Ev::Err(E::from_error(e)),
        }
    }
    pub fn kind(&self) -> u8 {
        match self {
            Ev::Start(..) => 1,
            Ev::Empty(..) => 2,
            Ev::End(..) => 3,
            Ev::Text(..) => 4,
            Ev::CData(..) => 5,
            Ev::Comment(..) => 6,
            Ev::Decl(..) => 7,
            Ev::PI(..) => 8,
            Ev::DocType(..) => 9,
            Ev::Eof => 10,
            Ev::Err(E::Syntax(s)) => 20 + *s as u8,
            Ev::Err(E::MissingDoctypeName) => 30,
            Ev::Err(E::MissingEndTag(_)) => 31,
            Ev::Err(E::UnmatchedEndTag(_)) => 32,
            Ev::Err(E::MismatchedEndTag { .. }) => 33,
            Ev::Err(E::DoubleHyphenInComment) => 34,
            Ev::Err(E::MissingDeclVersion) => 35,
            Ev::Err(E::Io(..)) => 40,
            Ev::Err(E::Other(_)) => 41,
            Ev::Err(E::Panic(_)) => 42,
        }
    }
    pub fn is_markup_or_err(&self) -> bool {
        !matches!(self, Ev::Text(_) | Ev::Eof)
    }
    pub fn is_err(&self) -> bool {
        matches!(self, Ev::Err(_))
    }
    pub fn show(&self) -> String {
        match self {
            Ev::Start(c, n) => format!("Start({:?}, name_len={})", lossy(c), n),
            Ev::Empty(c, n) => format!("Empty({:?}, name_len={})", lossy(c), n),
            Ev::End(c) => format!("End({:?})", lossy(c)),
            Ev::Text(c) => format!("Text({:?})", lossy(c)),
            Ev::CData(c) => format!("CData({:?})", lossy(c)),
            Ev::Comment(c) => format!("Comment({:?})", lossy(c)),
            Ev::Decl(c) => format!("Decl({:?})", lossy(c)),
            Ev::PI(c, n) => format!("PI({:?}, target_len={})", lossy(c), n),
            Ev::DocType(c) => format!("DocType({:?})", lossy(c)),
            Ev::Eof => "Eof".into(),
            Ev::Err(e) => format!("Err({:?})", e),
        }
    }
}

/// One observation: result of a read call plus the two positions afterwards.
#[derive(Clone, PartialEq, Eq, Hash, Debug)]
pub struct Obs {
    pub ev: Ev,
    pub pos: u64,
    pub err_pos: u64,
}

pub fn show_trace(t: &[Obs]) -> Vec<Value> {
    t.iter()
        .map(|o| json!(format!("{} pos={} err_pos={}", o.ev.show(), o.pos, o.err_pos)))
        .collect()
}

// ------------------------------------------------------------------------------------------------
// Configuration bit sets

pub const ALLOW_UNMATCHED: u8 = 1;
pub const CHECK_COMMENTS: u8 = 2;
pub const CHECK_END_NAMES: u8 = 4;
pub const EXPAND_EMPTY: u8 = 8;
pub const TRIM_NAMES: u8 = 16;
pub const TRIM_START: u8 = 32;
pub const TRIM_END: u8 = 64;

pub const NEUTRAL: u8 = ALLOW_UNMATCHED;
pub const DEFAULT: u8 = CHECK_END_NAMES | TRIM_NAMES;

pub fn apply_cfg(c: &mut Config, bits: u8) {
    c.allow_unmatched_ends = bits & ALLOW_UNMATCHED != 0;
    c.check_comments = bits & CHECK_COMMENTS != 0;
    c.check_end_names = bits & CHECK_END_NAMES != 0;
    c.expand_empty_elements = bits & EXPAND_EMPTY != 0;
    c.trim_markup_names_in_closing_tags = bits & TRIM_NAMES != 0;
    c.trim_text_start = bits & TRIM_START != 0;
    c.trim_text_end = bits & TRIM_END != 0;
}

pub fn cfg_bits(c: &Config) -> u8 {
    (c.allow_unmatched_ends as u8) * ALLOW_UNMATCHED
        | (c.check_comments as u8) * CHECK_COMMENTS
        | (c.check_end_names as u8) * CHECK_END_NAMES
        | (c.expand_empty_elements as u8) * EXPAND_EMPTY
        | (c.trim_markup_names_in_closing_tags as u8) * TRIM_NAMES
        | (c.trim_text_start as u8) * TRIM_START
        | (c.trim_text_end as u8) * TRIM_END
}

pub fn cfg_show(bits: u8) -> String {
    let names = [
        "allow_unmatched_ends",
        "check_comments",
        "check_end_names",
        "expand_empty_elements",
        "trim_markup_names_in_closing_tags",
        "trim_text_start",
        "trim_text_end",
    ];
    let on: Vec<&str> = (0..7).filter(|i| bits & (1 << i) != 0).map(|i| names[i]).collect();
    if on.is_empty() {
        "(all off)".into()
    } else {
        on.join("+")
    }
}

// ------------------------------------------------------------------------------------------------
// Running the slice reader

/// Reads `input` with the borrowing reader under `cfg`: all events up to and including the first
/// `Eof`, plus `extra` further calls. A panic ends the trace with `Err(Panic)`. The number of calls
/// is capped at `2*len+8` (+extra); hitting the cap is reported by the caller (trace has no Eof).
pub fn run_slice(input: &[u8], cfg: u8, extra: usize, out: &mut Vec<Obs>) {
    out.clear();
    let r = guarded_mut(|| {
        let mut reader = Reader::from_reader(input);
        apply_cfg(reader.config_mut(), cfg);
        let cap = 2 * input.len() + 8;
        let mut after_eof = 0;
        for _ in 0..cap + extra {
            let r = reader.read_event();
            let ev = Ev::from_result(&r);
            let eof = ev == Ev::Eof;
            out.push(Obs {
                ev,
                pos: reader.buffer_position(),
                err_pos: reader.error_position(),
            });
            if eof {
                if after_eof == extra {
                    break;
                }
                after_eof += 1;
            }
        }
    });
    if let Err(p) = r {
        out.push(Obs {
            ev: Ev::Err(E::Panic(p)),
            pos: 0,
            err_pos: 0,
        });
    }
}

// ------------------------------------------------------------------------------------------------
// Running the buffered and the async reader over a scripted source

use crate::env::{block_on, Script, Source};

#[derive(Default, Clone, Debug)]
pub struct RunInfo {
    /// fill_buf calls made by the reader
    pub fill_calls: usize,
    pub faults_fired: usize,
    pub misuse: Option<String>,
    pub stuck: bool,
    pub fault_offsets: Vec<usize>,
}

/// Reads with `Reader::read_event_into` over a scripted `BufRead`.
/// Stops after the first `Eof` (+`extra` calls) or after the first non-IllFormed error when
/// `stop_at_error` is set (C18: nothing is asserted about calls after an I/O error).
pub fn run_buffered(input: &[u8], cfg: u8, script: &Script, extra: usize, stop_at_error: bool, out: &mut Vec<Obs>) -> RunInfo {
    out.clear();
    let mut info = RunInfo::default();
    let r = guarded_mut(|| {
        let mut reader = Reader::from_reader(Source::new(input, script));
        apply_cfg(reader.config_mut(), cfg);
        let cap = 2 * input.len() + 8 + 2 * script.faults.len();
        let mut after_eof = 0;
        let mut buf = Vec::new();
        for _ in 0..cap + extra {
            crate::env::prepare_user_buf(script.user_buf, &mut buf);
            let r = reader.read_event_into(&mut buf);
            let ev = Ev::from_result(&r);
            drop(r);
            let eof = ev == Ev::Eof;
            let fatal = matches!(&ev, Ev::Err(e) if !e.is_illformed());
            out.push(Obs { ev, pos: reader.buffer_position(), err_pos: reader.error_position() });
            if fatal && stop_at_error {
                break;
            }
            if eof {
                if after_eof == extra {
                    break;
                }
                after_eof += 1;
            }
        }
        let src = reader.get_ref();
        info.fill_calls = src.calls;
        info.faults_fired = src.faults_fired;
        info.misuse = src.misuse.clone();
        info.fault_offsets = src.fault_offsets.clone();
    });
    if let Err(p) = r {
        out.push(Obs { ev: Ev::Err(E::Panic(p)), pos: 0, err_pos: 0 });
    }
    info
}

/// Reads with `Reader::read_event_into_async` over a scripted `AsyncBufRead`, polling by hand.
pub fn run_async(input: &[u8], cfg: u8, script: &Script, extra: usize, stop_at_error: bool, out: &mut Vec<Obs>) -> RunInfo {
    out.clear();
    let mut info = RunInfo::default();
    let r = guarded_mut(|| {
        let mut reader = Reader::from_reader(Source::new(input, script));
        apply_cfg(reader.config_mut(), cfg);
        let cap = 2 * input.len() + 8 + 2 * script.faults.len();
        let horizon = input.len() + script.faults.len() + 16;
        let mut after_eof = 0;
        let mut buf = Vec::new();
        for _ in 0..cap + extra {
            crate::env::prepare_user_buf(script.user_buf, &mut buf);
            let ev = match block_on(reader.read_event_into_async(&mut buf), horizon) {
                Some(r) => Ev::from_result(&r),
                None => {
                    info.stuck = true;
                    break;
                }
            };
            let eof = ev == Ev::Eof;
            let fatal = matches!(&ev, Ev::Err(e) if !e.is_illformed());
            out.push(Obs { ev, pos: reader.buffer_position(), err_pos: reader.error_position() });
            if fatal && stop_at_error {
                break;
            }
            if eof {
                if after_eof == extra {
                    break;
                }
                after_eof += 1;
            }
        }
        let src = reader.get_ref();
        info.fill_calls = src.calls;
        info.faults_fired = src.faults_fired;
        info.misuse = src.misuse.clone();
        info.fault_offsets = src.fault_offsets.clone();
    });
    if let Err(p) = r {
        out.push(Obs { ev: Ev::Err(E::Panic(p)), pos: 0, err_pos: 0 });
    }
    info
}
