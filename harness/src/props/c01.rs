//! C01 — Reader events match the document's lexical structure.
//!
//! Every input of the layers A–E is read with the real borrowing reader and compared, event by
//! event, with the reference lexer (`models::lex`) + configuration layer (`models::layer`).

use crate::common::*;
use crate::inputs::*;
use crate::models::layer::*;
use crate::models::lex::*;
use crate::trace::*;
use serde_json::{json, Value};

pub struct Verdict {
    pub ok: bool,
    /// known findings that explain (all of) the divergences
    pub known: Vec<&'static str>,
    pub what: String,
}

fn diverge_any_variant(s: &[u8], lexed: &Lexed, cfg: u8, amb: u8, obs: &[Obs], exp: &[Exp]) -> Option<usize> {
    let d = first_divergence(obs, exp)?;
    let mut best = d;
    if amb != 0 {
        let mut alt = Vec::new();
        for v in 1..4u8 {
            if v & amb == v {
                expected(s, lexed, cfg, v, &mut alt);
                match first_divergence(obs, &alt) {
                    None => return None,
                    Some(x) => best = best.max(x),
                }
            }
        }
    }
    Some(best)
}

/// Compares one (input, cfg). `known` gates the known-finding signatures.
pub fn check_one(
    input: &[u8],
    lexed: &Lexed,
    cfg: u8,
    known: &Known,
    obs: &mut Vec<Obs>,
    exp: &mut Vec<Exp>,
) -> Verdict {
    let s = strip_bom(input);
    run_slice(input, cfg, 0, obs);
    let amb = expected(s, lexed, cfg, 0, exp);
    if first_divergence(obs, exp).is_none() {
        return Verdict { ok: true, known: Vec::new(), what: String::new() };
    }
    let mut used: Vec<&'static str> = Vec::new();
    let mut cur: Vec<Obs> = obs.clone();
    let i = loop {
        let Some(i) = diverge_any_variant(s, lexed, cfg, amb, &cur, exp) else {
            return Verdict { ok: used.is_empty(), known: used, what: String::new() };
        };
        // F7: trim_text_end without trim_text_start reports an empty text: delete exactly the
        // empty Text event at the divergence and compare on
        if known.is_open("F7")
            && cfg & TRIM_END != 0
            && cfg & TRIM_START == 0
            && cur.get(i).map(|o| &o.ev) == Some(&Ev::Text(Vec::new()))
        {
            cur.remove(i);
            if !used.contains(&"F7") {
                used.push("F7");
            }
            continue;
        }
        break i;
    };
    // F8: `<?>` is taken as a complete (and then invalid) processing instruction
    if known.is_open("F8") && lexed.saw_bare_pi_open {
        if let Some(o) = cur.get(i) {
            if o.ev == Ev::Err(E::Syntax(SyntaxError2::UnclosedPIOrXmlDecl))
                && s[(o.err_pos as usize).min(s.len())..].starts_with(b"<?>")
                && matches!(exp.get(i).map(|e| &e.ev), Some(Ev::PI(..)) | Some(Ev::Decl(..)))
                && cur.len() == i + 2
            {
                used.push("F8");
                return Verdict { ok: false, known: used, what: String::new() };
            }
        }
    }
    let what = format!(
        "input {:?} cfg [{}]: call #{} returned {}, reference says {}",
        lossy(input),
        cfg_show(cfg),
        i,
        cur.get(i).map_or("<nothing: trace ended>".to_string(), |o| format!(
            "{} pos={} err_pos={}",
            o.ev.show(),
            o.pos,
            o.err_pos
        )),
        exp.get(i).map_or("<nothing: stream ended>".to_string(), |e| format!(
            "{} pos={:?} err_pos={:?}",
            e.ev.show(),
            e.pos,
            e.err_pos
        )),
    );
    Verdict { ok: false, known: Vec::new(), what }
}

fn signature(obs: &[Obs]) -> u64 {
    let kinds: Vec<u8> = obs.iter().map(|o| o.ev.kind()).collect();
    h64(&kinds)
}

fn case_json(input: &[u8], cfg: u8) -> Value {
    json!({"input": bytes_json(input), "cfg": cfg, "cfg_names": cfg_show(cfg)})
}

pub struct Run<'a> {
    pub ctx: &'a Ctx,
    pub known: Known,
    pub layer_no: u32,
    /// inputs up to this length over Σm are counted (as distinct, by construction) by layer A only
    pub a_len: usize,
}

impl<'a> Run<'a> {
    pub fn space(&mut self, sp: &Space, cfgs: &[u8], count_distinct: bool) {
        let ln = self.layer_no;
        self.layer_no += 1;
        let seed = self.ctx.seed;
        let known = &self.known;
        let a_len = self.a_len;
        let mut desc = sp.desc.clone();
        desc["configurations"] = json!(cfgs.len());
        self.ctx.layer(&sp.name, ln, sp.total, desc, |i, acc| {
            let mut input = Vec::new();
            sp.get(i, &mut input);
            let lexed = lex(strip_bom(&input));
            let mut obs = Vec::new();
            let mut exp = Vec::new();
            for (ci, &cfg) in cfgs.iter().enumerate() {
                acc.evaluations += 1;
                acc.traces += 1;
                let v = check_one(&input, &lexed, cfg, known, &mut obs, &mut exp);
                acc.transitions += obs.len() as u64;
                if ci == 0 {
                    acc.state(signature(&obs));
                    let nontrivial = obs.iter().any(|o| o.ev.is_markup_or_err());
                    if nontrivial {
                        if count_distinct {
                            acc.nt_count += 1;
                        } else if input.len() > a_len || !input.iter().all(|b| SIGMA_M.contains(b)) {
                            acc.nontrivial(h64(&input));
                        }
                    }
                }
                if !v.ok {
                    if v.known.is_empty() {
                        acc.violation((ln, i * 128 + cfg as u64), v.what, case_json(&input, cfg));
                    } else {
                        for id in &v.known {
                            acc.known(id, || format!("{:?} cfg [{}]", lossy(&input), cfg_show(cfg)));
                        }
                    }
                }
            }
            acc.sample(seed, i ^ ((ln as u64) << 40), || {
                json!({"layer": sp.name, "input": lossy(&input), "events": obs.iter().map(|o| o.ev.show()).collect::<Vec<_>>()})
            });
        });
    }
}

pub fn run(ctx: &Ctx) {
    ctx.set_rule(
        "layers: A all strings over the 14-byte markup alphabet Σm; B the same x all 128 configurations; \
         C all sequences of 22 multi-byte atoms; D construct-specific contexts prefix·w·tail with w exhaustive, \
         with and without BOM; E the repository's sample documents. Each (input, configuration) is one \
         execution of the real slice reader compared event by event (kind, content bytes, name/target length, \
         error variant + payload, position after every successful event, error position of syntax and end-tag \
         errors) with the reference lexer + configuration layer. non-trivial = the neutral-configuration \
         stream contains at least one markup event or error; distinct = distinct inputs (layer A by \
         construction; other layers only inputs layer A cannot contain, by hash). states = distinct \
         event-kind sequences",
    );
    ctx.assume("small-scope hypothesis: bugs show on inputs within the enumerated bounds");
    ctx.assume("positions are compared on the BOM-stripped input (the reader does not count a stripped BOM)");
    let t = ctx.tier;
    let full = cfg!(feature = "full");
    let a_len = t.pick(7, if full { 8 } else { 6 });
    let mut run = Run { ctx, known: Known::load(), layer_no: 0, a_len: a_len as usize };
    let all_cfgs: Vec<u8> = (0..128).collect();
    let two = [NEUTRAL, DEFAULT];

    if !full {
        // The `min` build differs from `full` only in the Init step (remove_utf8_bom vs
        // detect_encoding): re-run the layers that exercise the first bytes.
        run.space(&raw("A.raw(min)", SIGMA_M, t.pick(5, 6)), &two, true);
        for sp in contexts(|m| m.min(t.pick(3, 5)), true) {
            run.space(&sp, &two, false);
        }
        run.space(&context("Init.bom", &[b"", b"\xEF", b"\xEF\xBB", b"\xEF\xBB\xBF", b"\xEF\xBB\xBF\xEF\xBB\xBF"], b"<?xml >a/", t.pick(5, 6), &[b""], false), &two, false);
        return;
    }

    run.space(&raw("A.raw", SIGMA_M, a_len), &two, true);
    run.space(&raw("B.raw_x_cfg", SIGMA_M, t.pick(5, 6)), &all_cfgs, false);
    run.space(&atoms("C.atoms", ATOMS_C, t.pick(5, 6)), &two, false);
    run.space(&atoms("C.atoms_x_cfg", ATOMS_C, t.pick(3, 5)), &all_cfgs, false);
    for sp in contexts(|m| t.pick(m.min(5), m), true) {
        run.space(&sp, &two, false);
    }
    run.space(&context("Init.bom", &[b"", b"\xEF", b"\xEF\xBB", b"\xEF\xBB\xBF", b"\xEF\xBB\xBF\xEF\xBB\xBF"], b"<?xml >a/", t.pick(5, 6), &[b""], false), &two, false);

    // E: corpus
    let docs = corpus();
    let n = docs.len() as u64;
    let ln = run.layer_no;
    let known = &run.known;
    ctx.layer("E.corpus", ln, n * 128, json!({"files": docs.iter().map(|d| d.0.clone()).collect::<Vec<_>>(), "configurations": 128}), |i, acc| {
        let (name, bytes) = &docs[(i / 128) as usize];
        let cfg = (i % 128) as u8;
        let lexed = lex(strip_bom(bytes));
        let mut obs = Vec::new();
        let mut exp = Vec::new();
        acc.evaluations += 1;
        acc.traces += 1;
        let v = check_one(bytes, &lexed, cfg, known, &mut obs, &mut exp);
        acc.transitions += obs.len() as u64;
        acc.state(signature(&obs));
        if cfg == 0 {
            acc.nontrivial(h64(bytes));
        }
        if !v.ok {
            if v.known.is_empty() {
                acc.violation((ln, i), v.what.chars().take(600).collect(), json!({"file": name, "cfg": cfg}));
            } else {
                for id in &v.known {
                    acc.known(id, || format!("corpus file {} cfg [{}]", name, cfg_show(cfg)));
                }
            }
        }
    });
}

pub fn replay(case: &Value) -> Result<(), String> {
    let cfg = case["cfg"].as_u64().unwrap_or(NEUTRAL as u64) as u8;
    let input = if let Some(f) = case.get("file").and_then(|f| f.as_str()) {
        std::fs::read(format!("/repo/tests/documents/{}", f)).map_err(|e| e.to_string())?
    } else {
        bytes_from_json(&case["input"])
    };
    let lexed = lex(strip_bom(&input));
    let mut obs = Vec::new();
    let mut exp = Vec::new();
    let known = Known::load();
    let v = check_one(&input, &lexed, cfg, &known, &mut obs, &mut exp);
    println!("input:  {:?}\nconfig: {}", lossy(&input), cfg_show(cfg));
    println!("observed:");
    for o in show_trace(&obs) {
        println!("  {}", o.as_str().unwrap());
    }
    println!("reference:");
    for o in show_exp(&exp) {
        println!("  {}", o.as_str().unwrap());
    }
    if v.ok {
        Ok(())
    } else if !v.known.is_empty() {
        println!("matches known finding(s) {:?}", v.known);
        Err(format!("known finding {:?}", v.known))
    } else {
        Err(v.what)
    }
}
