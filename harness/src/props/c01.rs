//! C01 — Reader events match the document's lexical structure.
//!
//! Every input of the layers A–E is read with the real borrowing reader and compared, event by
//! event, with the reference lexer (`models::lex`) + configuration layer (`models::layer`).

use crate::common::*;
use crate::env::Script;
use crate::inputs::*;
use crate::models::layer::*;
use crate::models::lex::*;
use crate::trace::*;
use serde_json::{json, Value};

pub struct Verdict {
    pub ok: bool,
    /// known findings that explain (all of) the divergences
    pub known: Vec<&'static str>,
    pub what: String,
}

fn diverge_any_variant(truth: &Truth, cfg: u8, amb: u8, obs: &[Obs], exp: &[Exp]) -> Option<usize> {
    let d = first_divergence(obs, exp)?;
    let mut best = d;
    if amb != 0 {
        let mut alt = Vec::new();
        for v in 1..4u8 {
            if v & amb == v {
                truth.expected(cfg, v, &mut alt);
                match first_divergence(obs, &alt) {
                    None => return None,
                    Some(x) => best = best.max(x),
                }
            }
        }
    }
    Some(best)
}

/// The source of truth a run under `cfg` is compared with.
pub struct Truth {
    pub items: Vec<Item>,
    pub fatal: Option<Fatal>,
    pub final_pos: Option<u64>,
    pub saw_bare_pi_open: bool,
    pub label: &'static str,
}

impl Truth {
    /// C01: the reference lexer.
    pub fn from_lexer(input: &[u8]) -> Truth {
        let s = strip_bom(input);
        let lexed = lex(s);
        let mut items = Vec::new();
        let (fatal, len) = items_from_lex(s, &lexed, &mut items);
        Truth { items, fatal, final_pos: Some(len), saw_bare_pi_open: lexed.saw_bare_pi_open, label: "reference" }
    }
    /// C16: the implementation's own run under the neutral configuration.
    pub fn from_neutral(input: &[u8], script: Option<&Script>) -> Result<Truth, String> {
        let mut obs = Vec::new();
        match script {
            None => run_slice(input, NEUTRAL, 0, &mut obs),
            Some(sc) => {
                run_buffered(input, NEUTRAL, sc, 0, false, &mut obs);
            }
        }
        let mut items = Vec::new();
        let mut fatal = None;
        let mut final_pos = None;
        let mut prev = 0u64;
        for o in &obs {
            let (kind, content, name_len) = match &o.ev {
                Ev::Start(c, n) => (Kind::Start, c.clone(), *n),
                Ev::Empty(c, n) => (Kind::Empty, c.clone(), *n),
                Ev::End(c) => (Kind::End, c.clone(), 0),
                Ev::Text(c) => (Kind::Text, c.clone(), 0),
                Ev::CData(c) => (Kind::CData, c.clone(), 0),
                Ev::Comment(c) => (Kind::Comment, c.clone(), 0),
                Ev::Decl(c) => (Kind::Decl, c.clone(), 0),
                Ev::PI(c, n) => (Kind::PI, c.clone(), *n),
                Ev::DocType(c) => (Kind::DocType, c.clone(), 0),
                Ev::Err(E::MissingDoctypeName) => (Kind::MissingDoctypeName, Vec::new(), 0),
                Ev::Err(E::Syntax(e)) => {
                    fatal = Some(Fatal { err: *e, err_pos: Some(o.err_pos), pos: Some(o.pos) });
                    continue;
                }
                Ev::Eof => {
                    if fatal.is_none() {
                        final_pos = Some(o.pos);
                    }
                    continue;
                }
                Ev::Err(other) => return Err(format!("neutral run returned {:?}", other)),
            };
            items.push(Item {
                kind,
                content,
                name_len,
                at: prev,
                after: o.pos,
                err_pos: if kind == Kind::MissingDoctypeName { Some(o.err_pos) } else { None },
            });
            prev = o.pos;
        }
        Ok(Truth { items, fatal, final_pos, saw_bare_pi_open: false, label: "neutral run + documented transformation" })
    }
    fn expected(&self, cfg: u8, variant: u8, out: &mut Vec<Exp>) -> u8 {
        expected_from_items(&self.items, self.fatal.as_ref(), self.final_pos, cfg, variant, out)
    }
}

/// Compares one (input, cfg). `known` gates the known-finding signatures.
pub fn check_one(
    input: &[u8],
    truth: &Truth,
    cfg: u8,
    known: &Known,
    obs: &mut Vec<Obs>,
    exp: &mut Vec<Exp>,
) -> Verdict {
    check_one_src(input, truth, cfg, known, obs, exp, None)
}

pub fn check_one_src(
    input: &[u8],
    truth: &Truth,
    cfg: u8,
    known: &Known,
    obs: &mut Vec<Obs>,
    exp: &mut Vec<Exp>,
    script: Option<&Script>,
) -> Verdict {
    let s = strip_bom(input);
    match script {
        None => run_slice(input, cfg, 0, obs),
        Some(sc) => {
            run_buffered(input, cfg, sc, 0, false, obs);
        }
    }
    let amb = truth.expected(cfg, 0, exp);
    if first_divergence(obs, exp).is_none() {
        return Verdict { ok: true, known: Vec::new(), what: String::new() };
    }
    let mut used: Vec<&'static str> = Vec::new();
    let mut cur: Vec<Obs> = obs.clone();
    let i = loop {
        let Some(i) = diverge_any_variant(truth, cfg, amb, &cur, exp) else {
            return Verdict { ok: used.is_empty(), known: used, what: String::new() };
        };
        // F7: trim_text_end without trim_text_start reports an empty text: delete exactly the
        // empty Text event at the divergence and compare on
        if known.is_open("F7")
            && cfg & TRIM_END != 0
            && cfg & TRIM_START == 0
            && cur.get(i).map(|o| &o.ev) == Some(&Ev::Text(Vec::new()))
            // the finding is about blank-only text *in front of markup*; at the end of the input such text is dropped
            && cur.get(i).map_or(false, |o| (o.pos as usize) < s.len())
            // and the bytes in front of that position are indeed a non-empty run of XML blanks that starts the
            // input or follows a `>`
            && cur.get(i).map_or(false, |o| {
                let end = o.pos as usize;
                let mut b = end;
                while b > 0 && matches!(s[b - 1], b' ' | b'\t' | b'\r' | b'\n') {
                    b -= 1;
                }
                b < end && (b == 0 || s[b - 1] == b'>') && s.get(end) == Some(&b'<')
            })
        {
            cur.remove(i);
            if !used.contains(&"F7") {
                used.push("F7");
            }
            continue;
        }
        break i;
    };
    // F8: `<?>` is taken as a complete (and then invalid) processing instruction
    if known.is_open("F8") && truth.saw_bare_pi_open {
        if let Some(o) = cur.get(i) {
            if o.ev == Ev::Err(E::Syntax(SyntaxError2::UnclosedPIOrXmlDecl))
                && s[(o.err_pos as usize).min(s.len())..].starts_with(b"<?>")
                && matches!(exp.get(i).map(|e| &e.ev), Some(Ev::PI(..)) | Some(Ev::Decl(..)))
                && cur.len() == i + 2
            {
                used.push("F8");
                return Verdict { ok: false, known: used, what: String::new() };
            }
        }
    }
    let what = format!(
        "input {:?} cfg [{}]: call #{} returned {}, {} says {}",
        lossy_head(input),
        cfg_show(cfg),
        i,
        cur.get(i).map_or("<nothing: trace ended>".to_string(), |o| format!(
            "{} pos={} err_pos={}",
            o.ev.show(),
            o.pos,
            o.err_pos
        )),
        truth.label,
        exp.get(i).map_or("<nothing: stream ended>".to_string(), |e| format!(
            "{} pos={:?} err_pos={:?}",
            e.ev.show(),
            e.pos,
            e.err_pos
        )),
    );
    Verdict { ok: false, known: Vec::new(), what }
}

fn signature(obs: &[Obs]) -> u64 {
    let kinds: Vec<u8> = obs.iter().map(|o| o.ev.kind()).collect();
    h64(&kinds)
}

fn case_json2(input: &[u8], cfg: u8, neutral: bool) -> Value {
    json!({"input": bytes_json(input), "cfg": cfg, "cfg_names": cfg_show(cfg), "neutral": neutral})
}

fn case_json3(input: &[u8], cfg: u8, neutral: bool, script: Option<&Script>) -> Value {
    let mut v = case_json2(input, cfg, neutral);
    if let Some(s) = script {
        v["script"] = s.to_json();
    }
    v
}

pub struct Run<'a> {
    pub ctx: &'a Ctx,
    pub known: Known,
    pub layer_no: u32,
    /// inputs up to this length over Σm are counted (as distinct, by construction) by layer A only
    pub a_len: usize,
    /// false: C01 (reference lexer); true: C16 (neutral run of the implementation)
    pub neutral: bool,
    /// None: borrowing reader; Some: buffered reader over this chunking (C16's buffered layers)
    pub script: Option<Script>,
}

impl<'a> Run<'a> {
    fn truth(&self, input: &[u8]) -> Result<Truth, String> {
        if self.neutral {
            Truth::from_neutral(input, self.script.as_ref())
        } else {
            Ok(Truth::from_lexer(input))
        }
    }

    pub fn space(&mut self, sp: &Space, cfgs: &[u8], count_distinct: bool) {
        let ln = self.layer_no;
        self.layer_no += 1;
        let seed = self.ctx.seed;
        let known = &self.known;
        let a_len = self.a_len;
        let this = &*self;
        let mut desc = sp.desc.clone();
        desc["configurations"] = json!(cfgs.len());
        self.ctx.layer(&sp.name, ln, sp.total, desc, |i, acc| {
            let mut input = Vec::new();
            sp.get(i, &mut input);
            if this.script.is_some() && matches!(input.first(), Some(0xEF) | Some(0xFE) | Some(0xFF)) {
                // a chunked source recognises a byte-order mark only inside its first piece (stated exception, C02)
                acc.count("inputs_skipped_bom_exception", 1);
                return;
            }
            let truth = match this.truth(&input) {
                Ok(t) => t,
                Err(e) => {
                    acc.evaluations += 1;
                    acc.violation((ln, i * 128), format!("input {:?}: {}", lossy_head(&input), e), case_json3(&input, NEUTRAL, this.neutral, this.script.as_ref()));
                    return;
                }
            };
            let mut obs = Vec::new();
            let mut exp = Vec::new();
            for (ci, &cfg) in cfgs.iter().enumerate() {
                acc.evaluations += 1;
                acc.traces += 1;
                let v = check_one_src(&input, &truth, cfg, known, &mut obs, &mut exp, this.script.as_ref());
                acc.transitions += obs.len() as u64;
                if ci == 0 {
                    acc.state(signature(&obs));
                    let nontrivial = obs.iter().any(|o| o.ev.is_markup_or_err());
                    if nontrivial {
                        if count_distinct {
                            acc.nt_count += 1;
                        } else if input.len() > a_len || !input.iter().all(|b| SIGMA_M.contains(b)) {
                            acc.nontrivial(h64(&input));
                        }
                    }
                }
                if !v.ok {
                    if v.known.is_empty() {
                        acc.violation((ln, i * 128 + cfg as u64), v.what, case_json3(&input, cfg, this.neutral, this.script.as_ref()));
                    } else {
                        for id in &v.known {
                            acc.known(id, || format!("{:?} cfg [{}]", lossy_head(&input), cfg_show(cfg)));
                        }
                    }
                }
            }
            acc.sample(seed, i ^ ((ln as u64) << 40), || {
                json!({"layer": sp.name, "input": lossy(&input), "events": obs.iter().map(|o| o.ev.show()).collect::<Vec<_>>()})
            });
        });
    }
}

pub fn run(ctx: &Ctx) {
    ctx.set_rule(
        "layers: A all strings over the 14-byte markup alphabet Σm; B the same x all 128 configurations; \
         C all sequences of 22 multi-byte atoms; D construct-specific contexts prefix·w·tail with w exhaustive, \
         with and without BOM; E the repository's sample documents; layers A and C also through the buffered reader with piece sizes 1 and 2. \
         Each (input, configuration) is one execution of the real reader compared event by event (kind, content bytes, name/target length, \
         error variant + payload, position after every successful event, error position of syntax and end-tag \
         errors) with the reference lexer + configuration layer. non-trivial = the neutral-configuration \
         stream contains at least one markup event or error; distinct = distinct inputs (layer A by \
         construction; other layers only inputs layer A cannot contain, by hash). states = distinct \
         event-kind sequences",
    );
    ctx.assume("small-scope hypothesis: bugs show on inputs within the enumerated bounds");
    ctx.assume("positions are compared on the BOM-stripped input (the reader does not count a stripped BOM)");
    let t = ctx.tier;
    let full = cfg!(feature = "full");
    let a_len = t.pick(7, if full { 8 } else { 6 });
    let mut run = Run { ctx, known: Known::load(), layer_no: 0, a_len: a_len as usize, neutral: false, script: None };
    let all_cfgs: Vec<u8> = (0..128).collect();
    let two = [NEUTRAL, DEFAULT];

    if !full {
        // The `min` build differs from `full` only in the Init step (remove_utf8_bom vs
        // detect_encoding): re-run the layers that exercise the first bytes.
        run.space(&raw("A.raw(min)", SIGMA_M, t.pick(5, 6)), &two, true);
        for sp in contexts(|m| m.min(t.pick(3, 5)), true) {
            run.space(&sp, &two, false);
        }
        run.space(&context("Init.bom", &[b"", b"\xEF", b"\xEF\xBB", b"\xEF\xBB\xBF", b"\xEF\xBB\xBF\xEF\xBB\xBF"], b"<?xml >a/", t.pick(5, 6), &[b""], false), &two, false);
        return;
    }

    run.space(&raw("A.raw", SIGMA_M, a_len), &two, true);
    run.space(&raw("B.raw_x_cfg", SIGMA_M, t.pick(5, 6)), &all_cfgs, false);
    run.space(&atoms("C.atoms", ATOMS_C, t.pick(5, 6)), &two, false);
    run.space(&atoms("C.atoms_x_cfg", ATOMS_C, t.pick(3, 5)), &all_cfgs, false);
    for sp in contexts(|m| t.pick(m.min(5), m), true) {
        if sp.name == "D.comment" {
            // the `--` search of check_comments walks the whole body: every body, with the check on
            run.space(&sp, &[NEUTRAL, DEFAULT, NEUTRAL | CHECK_COMMENTS, 127], false);
        } else {
            run.space(&sp, &two, false);
        }
    }
    run.space(&context("Init.bom", &[b"", b"\xEF", b"\xEF\xBB", b"\xEF\xBB\xBF", b"\xEF\xBB\xBF\xEF\xBB\xBF", b"\xFF", b"\xFE"], b"<?xml >a/", t.pick(5, 6), &[b""], false), &two, false);

    run.space(&decl_case(t.pick(5, 6)), &two, false);
    run.space(&ws_class(), &[NEUTRAL, DEFAULT, 127], false);
    run.space(&mid_bom(t.pick(3, 4)), &[NEUTRAL, DEFAULT, 127, NEUTRAL | TRIM_START | TRIM_END], false);
    // S: size thresholds (names, texts, bodies, runs of delimiter look-alikes, nesting depth, sibling
    // and attribute counts stretched through every small size and around every power of two)
    run.space(
        &stretch("S.stretch", STRETCH_READER, t.pick(40, 160), t.pick(10, 16), t.pick(7, 10)),
        &[NEUTRAL, DEFAULT, 127, NEUTRAL | TRIM_START | TRIM_END],
        false,
    );

    // the same lexical oracle for the streaming (buffered) reader: its scanners carry state across
    // refills, so a lexing bug may exist only there (schedules in depth are C02's business)
    // four configurations here: text trimming of the streaming reader lives in the source (skip_whitespace)
    let four = [NEUTRAL, DEFAULT, 127u8, NEUTRAL | TRIM_START | TRIM_END];
    for piece in [1usize, 2] {
        run.script = Some(Script::pieces(piece));
        run.space(&raw(&format!("A.raw.buffered(piece={})", piece), SIGMA_M, t.pick(5, 6)), &four, false);
        run.space(&atoms(&format!("C.atoms.buffered(piece={})", piece), ATOMS_C, t.pick(3, 4)), &four, false);
        run.space(&mid_bom(t.pick(2, 3)), &four, false);
    }
    for piece in t.pick(&[1usize, 7, 64][..], &[1usize, 2, 7, 64, 1000, 8192][..]) {
        run.script = Some(Script::pieces(*piece));
        run.space(
            &stretch(&format!("S.stretch.buffered(piece={})", piece), STRETCH_READER, t.pick(20, 80), t.pick(10, 14), t.pick(5, 8)),
            &four,
            false,
        );
    }
    run.script = None;

    // E: corpus
    let docs = corpus();
    let n = docs.len() as u64;
    let ln = run.layer_no;
    let known = &run.known;
    ctx.layer("E.corpus", ln, n * 128, json!({"files": docs.iter().map(|d| d.0.clone()).collect::<Vec<_>>(), "configurations": 128}), |i, acc| {
        let (name, bytes) = &docs[(i / 128) as usize];
        let cfg = (i % 128) as u8;
        let truth = Truth::from_lexer(bytes);
        let mut obs = Vec::new();
        let mut exp = Vec::new();
        acc.evaluations += 1;
        acc.traces += 1;
        let v = check_one(bytes, &truth, cfg, known, &mut obs, &mut exp);
        acc.transitions += obs.len() as u64;
        acc.state(signature(&obs));
        if cfg == 0 {
            acc.nontrivial(h64(bytes));
        }
        if !v.ok {
            if v.known.is_empty() {
                acc.violation((ln, i), v.what.chars().take(600).collect(), json!({"file": name, "cfg": cfg}));
            } else {
                for id in &v.known {
                    acc.known(id, || format!("corpus file {} cfg [{}]", name, cfg_show(cfg)));
                }
            }
        }
    });
}

pub fn replay(case: &Value) -> Result<(), String> {
    let cfg = case["cfg"].as_u64().unwrap_or(NEUTRAL as u64) as u8;
    let input = if let Some(f) = case.get("file").and_then(|f| f.as_str()) {
        std::fs::read(format!("/repo/tests/documents/{}", f)).map_err(|e| e.to_string())?
    } else {
        bytes_from_json(&case["input"])
    };
    let truth = if case.get("neutral").and_then(|n| n.as_bool()) == Some(true) {
        Truth::from_neutral(&input, case.get("script").map(Script::from_json).as_ref())?
    } else {
        Truth::from_lexer(&input)
    };
    let mut obs = Vec::new();
    let mut exp = Vec::new();
    let known = Known::load();
    let script = case.get("script").map(Script::from_json);
    let v = check_one_src(&input, &truth, cfg, &known, &mut obs, &mut exp, script.as_ref());
    println!("input:  {:?}\nconfig: {}\nsource: {}", lossy_head(&input), cfg_show(cfg), script.as_ref().map_or("slice".to_string(), |s| format!("buffered {}", s.to_json())));
    println!("observed:");
    for o in show_trace(&obs) {
        println!("  {}", o.as_str().unwrap());
    }
    println!("{}:", truth.label);
    for o in show_exp(&exp) {
        println!("  {}", o.as_str().unwrap());
    }
    if v.ok {
        Ok(())
    } else if !v.known.is_empty() {
        println!("matches known finding(s) {:?}", v.known);
        Err(format!("known finding {:?}", v.known))
    } else {
        Err(v.what)
    }
}
