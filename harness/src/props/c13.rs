//! C13 — The serializer emits only well-formed XML that carries the data unchanged.
//!
//! Whatever is serialized: `Err`, or a document that the reader (all checks on) parses into
//! properly nested elements with error-free attribute lists and legal XML names; and no payload
//! can change the markup skeleton (skeleton invariance against a harmless placeholder payload).

use crate::common::*;
use crate::models::xmlname::is_name;
use crate::props::c06::{ser, SerCfg};
use crate::types::*;
use quick_xml::events::Event;
use quick_xml::reader::Reader;
use serde::ser::{SerializeStruct, Serializer as _};
use serde::Serialize;
use serde_json::{json, Value};
use std::collections::BTreeMap;

/// Markup skeleton + the unescaped payloads of a serialized document.
#[derive(Debug, Clone, PartialEq, Eq, Hash, Default)]
pub struct Analysis {
    pub skeleton: Vec<String>,
    pub payloads: Vec<String>,
}

/// Parses `xml` the way a strict consumer would; any ill-formedness is an error.
pub fn analyze(xml: &str) -> Result<Analysis, String> {
    guarded(|| -> Result<Analysis, String> {
        let mut r = Reader::from_str(xml);
        let c = r.config_mut();
        c.check_end_names = true;
        c.check_comments = true;
        c.allow_unmatched_ends = false;
        c.trim_markup_names_in_closing_tags = false;
        let mut a = Analysis::default();
        let mut depth: i64 = 0;
        let mut roots = 0;
        let dec = r.decoder();
        let mut start = |a: &mut Analysis, e: &quick_xml::events::BytesStart, kind: &str| -> Result<(), String> {
            let name = std::str::from_utf8(e.name().as_ref()).map_err(|_| "name is not UTF-8".to_string())?.to_string();
            if !is_name(&name) {
                return Err(format!("element name {:?} is not a legal XML name", name));
            }
            let mut tok = format!("{}:{}", kind, name);
            for at in e.attributes() {
                let at = at.map_err(|err| format!("attribute list of <{}> does not iterate: {:?}", name, err))?;
                let k = std::str::from_utf8(at.key.as_ref()).map_err(|_| "attribute name is not UTF-8".to_string())?.to_string();
                if !is_name(&k) {
                    return Err(format!("attribute name {:?} is not a legal XML name", k));
                }
                tok.push_str(&format!(" @{}", k));
                a.payloads.push(at.decode_and_unescape_value(dec).map_err(|err| format!("attribute value does not unescape: {:?}", err))?.into_owned());
            }
            a.skeleton.push(tok);
            Ok(())
        };
        loop {
            let ev = r.read_event().map_err(|e| format!("reader error {:?} at byte {}", e, r.error_position()))?;
            match ev {
                Event::Eof => break,
                Event::Start(e) => {
                    if depth == 0 {
                        roots += 1;
                    }
                    depth += 1;
                    start(&mut a, &e, "S")?;
                }
                Event::Empty(e) => {
                    if depth == 0 {
                        roots += 1;
                    }
                    start(&mut a, &e, "E")?;
                }
                Event::End(e) => {
                    depth -= 1;
                    if depth < 0 {
                        return Err("more end tags than start tags".into());
                    }
                    a.skeleton.push(format!("/{}", String::from_utf8_lossy(e.name().as_ref())));
                }
                Event::Text(t) => {
                    let s = t.unescape().map_err(|e| format!("text does not unescape: {:?}", e))?;
                    if depth == 0 && !xml_blank(&s) {
                        // a primitive serialized without a root is a document fragment; allowed only as the sole content
                        a.skeleton.push("toplevel-text".into());
                    }
                    if !xml_blank(&s) {
                        a.skeleton.push("T".into());
                    }
                    a.payloads.push(s.into_owned());
                }
                Event::CData(t) => {
                    a.skeleton.push("C".into());
                    a.payloads.push(String::from_utf8_lossy(&t).into_owned());
                }
                other => return Err(format!("serializer output contains unexpected markup {:?}", other)),
            }
        }
        if depth != 0 {
            return Err(format!("{} element(s) left open", depth));
        }
        let _ = roots;
        Ok(a)
    })
    .map_err(|p| format!("panic while analysing: {}", p))?
}

/// blank in the XML sense (form feed, NEL, ... are characters)
fn xml_blank(s: &str) -> bool {
    s.chars().all(|c| matches!(c, ' ' | '\t' | '\r' | '\n'))
}

/// Harmless payload with the same shape: blanks stay, everything else becomes `a`.
pub fn placeholder(s: &str) -> String {
    s.chars().map(|c| if matches!(c, ' ' | '\t' | '\r' | '\n') { c } else { 'a' }).collect()
}

// ------------------------------------------------------------------------------------------------
// Out-of-domain serialize-only types

pub struct Bytes(pub Vec<u8>);
impl Serialize for Bytes {
    fn serialize<S: serde::Serializer>(&self, s: S) -> Result<S::Ok, S::Error> {
        s.serialize_bytes(&self.0)
    }
}

#[derive(Serialize)]
pub enum Evil {
    #[serde(rename = "<x>")]
    Tag,
    #[serde(rename = "a b")]
    Blank,
    #[serde(rename = "")]
    Empty,
    #[serde(rename = "a\"b='c")]
    Quotes,
    Fine,
}

#[derive(Serialize)]
pub struct EvilHolder {
    #[serde(rename = "@a")]
    a: Evil,
    e: Evil,
    #[serde(rename = "$value")]
    v: Evil,
}

#[derive(Serialize)]
pub struct EvilText {
    #[serde(rename = "$text")]
    t: Evil,
}

#[derive(Serialize)]
pub struct OptNoSkip {
    #[serde(rename = "@a")]
    a: Option<String>,
    e: Option<String>,
    s: Option<Inner>,
}

/// A string that serializes itself through `Serializer::collect_str` (what `format_args!`, display-as-string
/// adapters and many `serialize_with` helpers do) instead of `serialize_str`.
pub struct Shown(pub String);
impl Serialize for Shown {
    fn serialize<S: serde::Serializer>(&self, s: S) -> Result<S::Ok, S::Error> {
        s.collect_str(&self.0)
    }
}

#[derive(Serialize)]
pub enum ShownChoice {
    #[serde(rename = "$text")]
    T(Shown),
    El(Shown),
}

#[derive(Serialize)]
pub struct ShownHolder {
    #[serde(rename = "@a")]
    a: Shown,
    #[serde(rename = "@o")]
    o: Option<Shown>,
    e: Shown,
    #[serde(rename = "$value")]
    v: Vec<ShownChoice>,
}

#[derive(Serialize)]
pub struct ShownText {
    #[serde(rename = "@l")]
    l: Vec<Shown>,
    #[serde(rename = "$text")]
    t: Shown,
}

#[derive(Serialize)]
pub struct Seqs {
    vv: Vec<Vec<String>>,
    t: (String, u8),
    b: Bytes,
    u: (),
}

/// A struct whose field names are chosen at run time.
pub struct DynStruct {
    pub name: &'static str,
    pub field: &'static str,
    pub value: String,
}
impl Serialize for DynStruct {
    fn serialize<S: serde::Serializer>(&self, s: S) -> Result<S::Ok, S::Error> {
        let mut st = s.serialize_struct(self.name, 1)?;
        st.serialize_field(self.field, &self.value)?;
        st.end()
    }
}

/// A map written through the two-step protocol (`serialize_key`, then `serialize_value`) instead of
/// `serialize_entry` — the serializer keeps the key in a slot between the two calls.
pub struct TwoStep(pub Vec<(String, String)>);
impl Serialize for TwoStep {
    fn serialize<S: serde::Serializer>(&self, s: S) -> Result<S::Ok, S::Error> {
        use serde::ser::SerializeMap;
        let mut m = s.serialize_map(Some(self.0.len()))?;
        for (k, v) in &self.0 {
            m.serialize_key(k)?;
            m.serialize_value(v)?;
        }
        m.end()
    }
}

pub const KEY_POOL: [&str; 18] = [
    "", "a", "1a", "a b", "a>b", "p:k", "@", "@a", "@a b", "@<", "$text", "$value", "xmlns:a", "<", "a/", "é", "-a", "a\"",
];

fn evil(i: usize) -> Evil {
    match i {
        0 => Evil::Tag,
        1 => Evil::Blank,
        2 => Evil::Empty,
        3 => Evil::Quotes,
        _ => Evil::Fine,
    }
}

/// Serializes one extra (out-of-domain) case. `idx` selects the case, `s` is the payload.
/// `keys` is the string the char-keyed map takes its keys from (the payload itself also for the
/// placeholder twin: keys are names, not payload).
fn extra_case(idx: usize, s: &str, keys: &str, cfg: SerCfg) -> Option<(String, Result<String, String>)> {
    let nk = KEY_POOL.len();
    Some(match idx {
        i if i < nk => {
            let mut m = BTreeMap::new();
            m.insert(KEY_POOL[i].to_string(), s.to_string());
            m.insert("z".to_string(), "1".to_string());
            (format!("map with key {:?}", KEY_POOL[i]), ser_root(&m, cfg, "m"))
        }
        i if i < 2 * nk => (format!("root name {:?}", KEY_POOL[i - nk]), ser_root(&TextDefault { k: s.to_string(), text: s.to_string() }, cfg, KEY_POOL[i - nk])),
        i if i < 3 * nk => (format!("struct field {:?}", KEY_POOL[i - 2 * nk]), ser(&DynStruct { name: "D", field: KEY_POOL[i - 2 * nk], value: s.to_string() }, cfg)),
        i if i < 4 * nk => (format!("struct name {:?}", KEY_POOL[i - 3 * nk]), ser(&DynStruct { name: KEY_POOL[i - 3 * nk], field: "f", value: s.to_string() }, cfg)),
        i if i < 4 * nk + 5 => (format!("markup-named unit variants #{}", i - 4 * nk), ser(&EvilHolder { a: evil(i - 4 * nk), e: evil((i + 1) % 5), v: evil((i + 2) % 5) }, cfg)),
        i if i < 4 * nk + 10 => (format!("markup-named unit variant in $text #{}", i - 4 * nk - 5), ser(&EvilText { t: evil(i - 4 * nk - 5) }, cfg)),
        i if i == 4 * nk + 10 => ("Option without skip: None".into(), ser(&OptNoSkip { a: None, e: None, s: None }, cfg)),
        i if i == 4 * nk + 11 => ("Option without skip: Some".into(), ser(&OptNoSkip { a: Some(s.to_string()), e: Some(s.to_string()), s: Some(Inner { id: 1, name: s.to_string() }) }, cfg)),
        i if i == 4 * nk + 12 => ("nested sequences, tuple, bytes, unit".into(), ser(&Seqs { vv: vec![vec![s.to_string(), s.to_string()], vec![], vec![s.to_string()]], t: (s.to_string(), 1), b: Bytes(s.as_bytes().to_vec()), u: () }, cfg)),
        i if i == 4 * nk + 13 => ("top-level string".into(), ser_root(&s.to_string(), cfg, "r")),
        i if i == 4 * nk + 14 => ("top-level Vec<String> with root".into(), ser_root(&vec![s.to_string(), s.to_string()], cfg, "r")),
        i if i == 4 * nk + 15 => ("top-level char list".into(), ser_root(&s.chars().collect::<Vec<char>>(), cfg, "r")),
        i if i == 4 * nk + 16 => {
            let mut m: BTreeMap<u8, String> = BTreeMap::new();
            m.insert(1, s.to_string());
            ("map with integer keys".into(), ser_root(&m, cfg, "m"))
        }
        i if i == 4 * nk + 17 => {
            let mut m: BTreeMap<bool, String> = BTreeMap::new();
            m.insert(true, s.to_string());
            ("map with boolean keys".into(), ser_root(&m, cfg, "m"))
        }
        i if i == 4 * nk + 18 => {
            let mut m: BTreeMap<char, String> = BTreeMap::new();
            for c in keys.chars().chain(['k']) {
                m.insert(c, s.to_string());
            }
            ("map with char keys taken from the payload".into(), ser_root(&m, cfg, "m"))
        }
        i if i == 4 * nk + 19 => {
            let mut m: BTreeMap<String, Vec<String>> = BTreeMap::new();
            m.insert("k".into(), vec![s.to_string(), String::new(), s.to_string()]);
            m.insert("@a".into(), vec![s.to_string(), s.to_string()]);
            ("map with list values (element list and attribute list)".into(), ser_root(&m, cfg, "m"))
        }
        i if i == 5 * nk + 20 => (
            "strings written through collect_str: attribute, optional attribute, element, $text variant and element variant in $value".into(),
            ser(&ShownHolder { a: Shown(s.to_string()), o: Some(Shown(s.to_string())), e: Shown(s.to_string()), v: vec![ShownChoice::T(Shown(s.to_string())), ShownChoice::El(Shown(s.to_string()))] }, cfg),
        ),
        i if i == 5 * nk + 21 => ("strings written through collect_str: attribute list and $text".into(), ser(&ShownText { l: vec![Shown(s.to_string()), Shown(s.to_string())], t: Shown(s.to_string()) }, cfg)),
        i if i == 5 * nk + 22 => ("top-level $text variant written through collect_str".into(), ser_root(&ShownChoice::T(Shown(s.to_string())), cfg, "r")),
        i if i < 5 * nk + 20 => {
            let key = KEY_POOL[i - 4 * nk - 20];
            let m = TwoStep(vec![("y".to_string(), "0".to_string()), (key.to_string(), s.to_string()), ("z".to_string(), "1".to_string())]);
            (format!("map with key {:?} written by serialize_key + serialize_value", key), ser_root(&m, cfg, "m"))
        }
        _ => return None,
    })
}
const N_EXTRA: usize = 5 * 18 + 23;

fn ser_root<T: Serialize>(v: &T, cfg: SerCfg, root: &str) -> Result<String, String> {
    guarded_mut(|| -> Result<String, String> {
        let mut out = String::new();
        let mut s = quick_xml::se::Serializer::with_root(&mut out, Some(root)).map_err(|e| format!("{:?}", e))?;
        s.set_quote_level(match cfg.level {
            0 => quick_xml::se::QuoteLevel::Full,
            1 => quick_xml::se::QuoteLevel::Partial,
            _ => quick_xml::se::QuoteLevel::Minimal,
        });
        if cfg.indent {
            s.indent(' ', 2);
        }
        s.expand_empty_elements(cfg.expand);
        v.serialize(s).map_err(|e| format!("{:?}", e))?;
        Ok(out)
    })
    .map_err(|p| format!("panic in serializer: {}", p))?
}

/// The C13 verdict for one serialization result and its placeholder twin.
fn judge(out: &Result<String, String>, twin: &Result<String, String>, payload: &str) -> Result<bool, String> {
    match out {
        Err(e) if e.starts_with("panic") => Err(e.clone()),
        Err(_) => {
            // failing is allowed; it must not depend on a *payload* though when the twin succeeds
            // only because of characters — rejecting a payload is a legitimate reaction, so no check
            Ok(false)
        }
        Ok(xml) => {
            let a = analyze(xml).map_err(|m| format!("output {:?} is not well-formed: {}", xml, m))?;
            if let Ok(txml) = twin {
                let t = analyze(txml).map_err(|m| format!("placeholder output {:?} is not well-formed: {}", txml, m))?;
                if t.skeleton != a.skeleton {
                    return Err(format!(
                        "payload {:?} changes the markup: output {:?} has skeleton {:?}, with the harmless payload {:?} it is {:?}",
                        payload, xml, a.skeleton, placeholder(payload), t.skeleton
                    ));
                }
            }
            Ok(true)
        }
    }
}

const ALPHA: [&str; 14] = ["<", ">", "&", "'", "\"", "]", "-", "\0", "\n", " ", "a", "\u{e9}", "\u{20ac}", "\x0C"];

/// Size thresholds of the escaping / chunking code: `filler^p . hostile . filler^q` in every payload
/// position; p through every small size and around every power of two up to 2^13.
const LONG_HOSTILE: [&str; 9] = ["<x/>", "&", "\"", "'", "]]>", ">", "\u{e9}<", "\0", " < "];
const LONG_FILL: [&str; 2] = ["a", "\u{e9}"];

fn sweep_family_long<T: Fam>(ctx: &Ctx, ln: u32) {
    if T::payload2("a", false).is_empty() {
        return;
    }
    let ps: Vec<u32> = crate::inputs::size_list(ctx.tier.pick(24, 70), ctx.tier.pick(13, 16));
    let qs: [usize; 4] = [0, 1, 5, 100];
    let cfgs: Vec<SerCfg> = (0..3).map(|level| SerCfg { level, indent: level == 1, expand: false, root: false }).collect();
    let (np, nh) = (ps.len() as u64, LONG_HOSTILE.len() as u64);
    ctx.layer(&format!("family_long.{}", T::NAME), ln, np * nh * 8, json!({"shape": "filler^p . hostile . filler^q", "hostile": LONG_HOSTILE, "fillers": LONG_FILL, "p": format!("0..=dense and around the powers of two up to 2^13/2^16 ({} sizes)", np), "q": qs, "serializer_configurations": 3}), |i0, acc| {
        let mut i = i0;
        let q = qs[(i % 4) as usize];
        i /= 4;
        let f = LONG_FILL[(i % 2) as usize];
        i /= 2;
        let h = LONG_HOSTILE[(i % nh) as usize];
        let p = ps[(i / nh) as usize] as usize;
        let s = format!("{}{}{}", f.repeat(p), h, f.repeat(q));
        let ph = placeholder(&s);
        let vals = T::payload2(&s, false);
        let twins = T::payload2(&ph, false);
        for (pi, v) in vals.iter().enumerate() {
            for &cfg in &cfgs {
                acc.evaluations += 1;
                acc.traces += 1;
                acc.transitions += 2;
                let out = ser(v, cfg);
                let twin = twins.get(pi).map(|t| ser(t, cfg)).unwrap_or(Err("no twin".into()));
                match judge(&out, &twin, h) {
                    Ok(true) => acc.nt_count += 1,
                    Ok(false) => acc.count("serializer_refused", 1),
                    Err(what) => acc.violation((ln, i0), format!("{} payload {:?}^{} . {:?} . {:?}^{} in position {} with {:?}: {}", T::NAME, f, p, h, f, q, pi, cfg, lossy_head(what.as_bytes())), json!({"kind": "family", "type": T::NAME, "payload": s, "position": pi, "cfg": cfg.index()})),
                }
            }
        }
    });
}

fn sweep_family<T: Fam>(ctx: &Ctx, ln: u32, max: u32) {
    if T::payload2("a", false).is_empty() {
        return;
    }
    let k = ALPHA.len() as u64;
    let cfgs = SerCfg::all();
    let seed = ctx.seed;
    ctx.layer(&format!("family.{}", T::NAME), ln, count_upto(k, max), json!({"alphabet": ALPHA, "max_len": max, "serializer_configurations": cfgs.len()}), |i, acc| {
        let mut d = Vec::new();
        decode_upto(k, max, i, &mut d);
        let s: String = d.iter().map(|&x| ALPHA[x as usize]).collect();
        let ph = placeholder(&s);
        let vals = T::payload2(&s, false);
        let twins = T::payload2(&ph, false);
        for (pi, v) in vals.iter().enumerate() {
            for &cfg in &cfgs {
                acc.evaluations += 1;
                acc.traces += 1;
                acc.transitions += 2;
                let out = ser(v, cfg);
                let twin = twins.get(pi).map(|t| ser(t, cfg)).unwrap_or(Err("no twin".into()));
                match judge(&out, &twin, &s) {
                    Ok(true) => {
                        acc.nt_count += 1;
                        if cfg == SerCfg::plain() {
                            acc.sample(seed, i ^ ((ln as u64) << 32) ^ pi as u64, || json!({"type": T::NAME, "value": format!("{:?}", v), "xml": out.clone().unwrap_or_default()}));
                        }
                    }
                    Ok(false) => acc.count("serializer_refused", 1),
                    Err(what) => acc.violation((ln, i), format!("{} value {:?} with {:?}: {}", T::NAME, v, cfg, what), json!({"kind": "family", "type": T::NAME, "payload": s, "position": pi, "cfg": cfg.index()})),
                }
            }
        }
    });
}

/// `io::Write` sink that accepts at most `max` bytes per call (a legal short write).
pub struct ShortSink {
    pub out: Vec<u8>,
    pub max: usize,
}
impl std::io::Write for ShortSink {
    fn write(&mut self, buf: &[u8]) -> std::io::Result<usize> {
        let n = buf.len().min(self.max);
        self.out.extend_from_slice(&buf[..n]);
        Ok(n)
    }
    fn flush(&mut self) -> std::io::Result<()> {
        Ok(())
    }
}

/// The io-sink entry points must produce the same document as `to_string`, whatever the sink's
/// write granularity.
fn io_sink_agrees<T: Fam>(v: &T) -> Result<u64, String> {
    // What is demanded: (1) the document an io-sink entry point writes does not depend on how many bytes the
    // sink accepts per call (a short write is legal); (2) written into a sink that takes everything it is
    // well-formed and carries the same skeleton and payloads as the document of to_string. Byte identity with
    // to_string is NOT demanded (it is not stated anywhere).
    let Ok(reference) = guarded_mut(|| quick_xml::se::to_string(v).map_err(|e| format!("{:?}", e))).map_err(|p| format!("panic: {}", p))? else { return Ok(0) };
    let ref_analysis = analyze(&reference).ok();
    let mut n = 0;
    let io = |max: usize| {
        guarded_mut(|| {
            let mut sink = ShortSink { out: Vec::new(), max };
            quick_xml::se::to_utf8_io_writer(&mut sink, v).map(|_| sink.out).map_err(|e| format!("{:?}", e))
        })
        .map_err(|p| format!("panic: {}", p))
    };
    let ws = |max: usize| {
        guarded_mut(|| {
            let mut w = quick_xml::writer::Writer::new(ShortSink { out: Vec::new(), max });
            w.write_serializable("r", v).map(|_| w.into_inner().out).map_err(|e| format!("{:?}", e))
        })
        .map_err(|p| format!("panic: {}", p))
    };
    let full_io = io(usize::MAX)?;
    let full_ws = ws(usize::MAX)?;
    n += 2;
    match &full_io {
        Ok(bytes) => {
            let text = std::str::from_utf8(bytes).map_err(|_| "to_utf8_io_writer wrote bytes that are not UTF-8".to_string())?;
            let a = analyze(text).map_err(|m| format!("to_utf8_io_writer wrote {:?}, which is not well-formed: {}", text, m))?;
            if let Some(r) = &ref_analysis {
                if *r != a {
                    return Err(format!("to_utf8_io_writer wrote {:?}, to_string gives {:?}: different markup or payloads", text, reference));
                }
            }
        }
        Err(e) => return Err(format!("to_utf8_io_writer failed with {} although to_string succeeded", e)),
    }
    if let Ok(bytes) = &full_ws {
        let text = std::str::from_utf8(bytes).map_err(|_| "write_serializable wrote bytes that are not UTF-8".to_string())?;
        analyze(text).map_err(|m| format!("Writer::write_serializable wrote {:?}, which is not well-formed: {}", text, m))?;
    }
    for max in [1usize, 2, 3, 7] {
        n += 2;
        let got = io(max)?;
        if got != full_io {
            return Err(format!("to_utf8_io_writer into a sink that accepts {} byte(s) per call gives {:?}, into a sink that accepts everything {:?}", max, got.map(|b| lossy(&b)), full_io.clone().map(|b| lossy(&b))));
        }
        let got = ws(max)?;
        if got != full_ws {
            return Err(format!("Writer::write_serializable into a sink that accepts {} byte(s) per call gives {:?}, into a sink that accepts everything {:?}", max, got.map(|b| lossy(&b)), full_ws.clone().map(|b| lossy(&b))));
        }
    }
    Ok(n)
}

fn sweep_values<T: Fam>(ctx: &Ctx, ln: u32, level: usize) {
    let vals = T::values(level);
    let cfgs = SerCfg::all();
    ctx.layer(&format!("values.{}", T::NAME), ln, vals.len() as u64, json!({"values": vals.len(), "serializer_configurations": cfgs.len()}), |i, acc| {
        let v = &vals[i as usize];
        match io_sink_agrees(v) {
            Ok(n) => {
                acc.evaluations += n;
                acc.count("io_sink_serializations", n);
            }
            Err(what) => acc.violation((ln, i), format!("{} value {:?}: {}", T::NAME, v, what), json!({"kind": "value", "type": T::NAME, "index": i, "cfg": 8, "level": level})),
        }
        for &cfg in &cfgs {
            acc.evaluations += 1;
            acc.traces += 1;
            acc.transitions += 1;
            let out = ser(v, cfg);
            match judge(&out, &Err("none".into()), "") {
                Ok(true) => {
                    acc.nt_count += 1;
                    if let Ok(x) = &out {
                        if let Ok(a) = analyze(x) {
                            acc.state(h64(&a.skeleton));
                        }
                    }
                }
                // refusing is allowed by this property (that documented values serialize is C06's business)
                Ok(false) => acc.count("serializer_refused", 1),
                Err(what) => acc.violation((ln, i), format!("{} value {:?} with {:?}: {}", T::NAME, v, cfg, what), json!({"kind": "value", "type": T::NAME, "index": i, "cfg": cfg.index(), "level": level})),
            }
        }
    });
}

pub fn run(ctx: &Ctx) {
    ctx.set_rule(
        "(1) every value of the C06 type family x 24 serializer configurations, and the io-sink entry points (to_utf8_io_writer, \
         Writer::write_serializable) into sinks that accept 1, 2, 3, 7 or all bytes per write call: the document must not depend on the sink's write granularity, and must be well-formed with the skeleton and payloads of to_string's document; (2) per payload position of each family type, every \
         string up to length 3/5 over {< > & ' \" ] - NUL newline space a é €} (and long strings filler^p . hostile . filler^q with p through every small size and around every power of two up to 2^13), INCLUDING strings outside the round-trip domain (leading / \
         trailing blanks, empty list items); (3) out-of-domain cases x the same strings: maps with 18 hostile keys ('' 1a 'a b' a>b \
         p:k @ @a '@a b' @< $text $value xmlns:a < a/ ...), the same pool as root name, as run-time struct field name and struct name, and as keys of a map written through serialize_key + serialize_value, \
         unit variants renamed to markup in attribute / element / $value / $text position, Option without skip, nested sequences, \
         tuples, bytes, unit, top-level primitives and lists. Oracle: the call returns Err, or its output is read by Reader with all \
         checks on without error, nesting depth never negative and 0 at the end, every attribute list iterates without error, every \
         element and attribute name satisfies an independent XML Name predicate, and the markup skeleton (tags, attribute names, \
         presence of text) equals that of the same value with the payload replaced by a same-shaped harmless placeholder. \
         non-trivial = the serializer produced a document that was analysed; distinct by construction",
    );
    ctx.assume("skeleton invariance uses a placeholder that keeps blanks and replaces every other character by `a`");
    let t = ctx.tier;
    let level = t.pick(0, 1);
    let max = t.pick(3, 5);
    let mut ln = 0;
    macro_rules! go {
        ($($t:ident),*) => { $( sweep_values::<$t>(ctx, ln, level); ln += 1; sweep_family::<$t>(ctx, ln, max); ln += 1; )* };
    }
    crate::for_each_type!(go);
    macro_rules! go_long {
        ($($t:ident),*) => { $( sweep_family_long::<$t>(ctx, ln); ln += 1; )* };
    }
    crate::for_each_type!(go_long);
    let k = ALPHA.len() as u64;
    let cfgs = SerCfg::all();
    let nstr = count_upto(k, max);
    ctx.layer("out_of_domain", ln, nstr * N_EXTRA as u64, json!({"cases": N_EXTRA, "key_pool": KEY_POOL, "alphabet": ALPHA, "max_len": max}), |i, acc| {
        let case = (i % N_EXTRA as u64) as usize;
        let mut d = Vec::new();
        decode_upto(k, max, i / N_EXTRA as u64, &mut d);
        let s: String = d.iter().map(|&x| ALPHA[x as usize]).collect();
        let ph = placeholder(&s);
        for &cfg in &cfgs {
            let Some((name, out)) = extra_case(case, &s, &s, cfg) else { continue };
            let twin = extra_case(case, &ph, &s, cfg).map(|x| x.1).unwrap_or(Err("none".into()));
            acc.evaluations += 1;
            acc.traces += 1;
            acc.transitions += 2;
            match judge(&out, &twin, &s) {
                Ok(true) => acc.nt_count += 1,
                Ok(false) => acc.count("serializer_refused", 1),
                Err(what) => acc.violation((ln, i), format!("{} with payload {:?}, {:?}: {}", name, s, cfg, what), json!({"kind": "extra", "case": case, "payload": s, "cfg": cfg.index()})),
            }
        }
    });
}

pub fn replay(case: &Value) -> Result<(), String> {
    let cfg = SerCfg::from_index(case["cfg"].as_u64().unwrap_or(8));
    match case["kind"].as_str().unwrap_or("") {
        "extra" => {
            let s = case["payload"].as_str().unwrap_or("");
            let idx = case["case"].as_u64().unwrap() as usize;
            let (name, out) = extra_case(idx, s, s, cfg).ok_or("bad case")?;
            let twin = extra_case(idx, &placeholder(s), s, cfg).unwrap().1;
            println!("{} payload {:?} {:?}\noutput: {:?}\nplaceholder output: {:?}", name, s, cfg, out, twin);
            judge(&out, &twin, s).map(|_| ())
        }
        kind => {
            let name = case["type"].as_str().ok_or("no type")?;
            let mut result = Err(format!("unknown type {}", name));
            macro_rules! go {
                ($($t:ident),*) => { $( if name == <$t as Fam>::NAME {
                    if kind == "family" {
                        let s = case["payload"].as_str().unwrap_or("");
                        let pi = case["position"].as_u64().unwrap_or(0) as usize;
                        let v = &<$t as Fam>::payload2(s, false)[pi];
                        let out = ser(v, cfg);
                        let twin = ser(&<$t as Fam>::payload2(&placeholder(s), false)[pi], cfg);
                        println!("{:?} {:?}\noutput: {:?}\nplaceholder output: {:?}", v, cfg, out, twin);
                        result = judge(&out, &twin, s).map(|_| ());
                    } else {
                        let v = &<$t as Fam>::values(case["level"].as_u64().unwrap_or(0) as usize)[case["index"].as_u64().unwrap() as usize];
                        let out = ser(v, cfg);
                        println!("{:?} {:?}\noutput: {:?}", v, cfg, out);
                        result = judge(&out, &Err("none".into()), "").and_then(|ok| if ok { Ok(()) } else { Err("serializer refused the value".into()) }).and_then(|_| io_sink_agrees(v).map(|_| ()));
                    }
                } )* };
            }
            crate::for_each_type!(go);
            result
        }
    }
}
