//! C03 — Reading is total: no panic, always terminates, Eof is final.
//!
//! Every input (all 256 byte values at small lengths, the markup alphabet deeper, atoms, contexts)
//! under every configuration is pulled through the slice, buffered and async sources of `Reader`
//! and `NsReader`; every payload accessor is invoked on every returned event. Everything runs
//! under catch_unwind with debug assertions and overflow checks enabled.

use crate::common::*;
use crate::env::{block_on, Script, Source};
use crate::inputs::*;
use crate::models::lex::strip_bom;
use crate::trace::*;
use quick_xml::encoding::Decoder;
use quick_xml::events::{BytesStart, Event};
use quick_xml::reader::{NsReader, Reader};
use serde_json::{json, Value};

#[derive(Clone, Copy, PartialEq, Eq, Debug)]
pub enum Variant {
    Slice,
    Buf(usize),
    Async(usize),
    NsSlice,
    NsBuf(usize),
    NsAsync(usize),
    /// buffered / async source that reports end-of-input once at this offset and then continues
    BufEofOnce(usize),
    AsyncEofOnce(usize),
}

pub const VARIANTS: [Variant; 8] = [
    Variant::Slice,
    Variant::Buf(1),
    Variant::Buf(0),
    Variant::Async(1),
    Variant::NsSlice,
    Variant::NsBuf(1),
    Variant::NsBuf(0),
    Variant::NsAsync(1),
];

fn exercise_attrs(e: &BytesStart, decoder: Decoder, n: &mut u64) -> Result<(), String> {
    let cap = e.len() + 3;
    for html in [false, true] {
        for checks in [true, false] {
            let mut it = if html { e.html_attributes() } else { e.attributes() };
            it.with_checks(checks);
            let mut count = 0;
            loop {
                match it.next() {
                    None => break,
                    Some(Ok(a)) => {
                        let _ = a.key.local_name();
                        let _ = a.key.prefix();
                        let _ = a.key.as_namespace_binding();
                        let _ = a.decode_and_unescape_value(decoder);
                        let _ = a.as_bool();
                    }
                    Some(Err(_)) => {}
                }
                count += 1;
                *n += 1;
                if count > cap {
                    return Err(format!("attribute iteration over {:?} does not end", lossy(e)));
                }
            }
            for _ in 0..2 {
                if it.next().is_some() {
                    return Err(format!("attribute iteration over {:?} resumed after None", lossy(e)));
                }
            }
        }
    }
    let _ = e.try_get_attribute("a");
    let _ = e.try_get_attribute(b"".as_ref());
    let _ = e.attributes_raw();
    Ok(())
}

/// Invokes every payload accessor of `ev`; returns the number of accessor calls.
pub fn exercise(ev: &Event, decoder: Decoder) -> Result<u64, String> {
    let mut n = 0u64;
    match ev {
        Event::Start(e) | Event::Empty(e) => {
            let nm = e.name();
            let _ = (nm.local_name(), nm.prefix(), nm.decompose(), nm.as_namespace_binding(), e.local_name());
            exercise_attrs(e, decoder, &mut n)?;
            let end = e.to_end();
            let _ = (end.name(), end.local_name());
            let o = e.to_owned();
            if o.name() != e.name() || &*o != &**e {
                return Err("to_owned changed a start tag".into());
            }
            let b = e.borrow();
            if b.name() != e.name() {
                return Err("borrow changed a start tag".into());
            }
            n += 10;
        }
        Event::End(e) => {
            let nm = e.name();
            let _ = (nm.local_name(), nm.prefix(), e.local_name(), e.borrow().name());
            n += 4;
        }
        Event::Text(t) | Event::Comment(t) | Event::DocType(t) => {
            let _ = t.unescape();
            let mut c = t.clone();
            let _ = c.inplace_trim_start();
            let _ = c.inplace_trim_end();
            let mut c2 = t.clone();
            let _ = c2.inplace_trim_end();
            let _ = c2.inplace_trim_start();
            let _ = t.clone().into_inner();
            n += 6;
        }
        Event::CData(c) => {
            let _ = c.clone().escape();
            let _ = c.clone().partial_escape();
            let _ = c.clone().minimal_escape();
            let _ = c.clone().into_inner();
            n += 5;
        }
        Event::Decl(d) => {
            let _ = d.version();
            let _ = d.encoding();
            let _ = d.standalone();
            #[cfg(feature = "full")]
            let _ = d.encoder();
            let _ = d.borrow();
            n += 5;
        }
        Event::PI(p) => {
            let _ = p.target();
            let _ = p.content();
            let mut it = p.attributes();
            let cap = p.len() + 3;
            let mut count = 0;
            while it.next().is_some() {
                count += 1;
                if count > cap {
                    return Err("PI attribute iteration does not end".into());
                }
            }
            let _ = p.borrow();
            n += 4 + count as u64;
        }
        Event::Eof => {}
    }
    let owned = ev.clone().into_owned();
    if Ev::from_event(&owned) != Ev::from_event(ev) {
        return Err("into_owned changed the event".into());
    }
    let _ = ev.borrow();
    Ok(n + 2)
}

pub struct Summary {
    pub calls: usize,
    pub accessor_calls: u64,
    pub kinds: Vec<u8>,
}

macro_rules! drive {
    ($input:expr, $reader:ident, $read:expr, $ns:expr, $slice:expr) => {{
        // the borrowing reader always sees (and strips) a BOM; a chunked source only if the first
        // piece holds it, so only the raw length is a sound bound there
        let s_len = if $slice { strip_bom($input).len() as u64 } else { $input.len() as u64 };
        let limit = 2 * $input.len() + 3;
        let mut calls = 0usize;
        let mut accessor_calls = 0u64;
        let mut kinds = Vec::new();
        let mut prev_pos = 0u64;
        let mut done_after: Option<usize> = None; // Some(k): k more Eofs seen after termination
        loop {
            if calls > limit + 4 {
                return Err(format!("no Eof after {} calls (bound 2*len+3 = {})", calls, limit));
            }
            calls += 1;
            let decoder = $reader.decoder();
            let r: Option<Result<Event, quick_xml::Error>> = $read;
            let Some(r) = r else {
                return Err("async read did not complete within the polling horizon".into());
            };
            let ev = Ev::from_result(&r);
            kinds.push(ev.kind());
            if let Ok(e) = &r {
                accessor_calls += exercise(e, decoder)?;
            }
            drop(r);
            let pos = $reader.buffer_position();
            let epos = $reader.error_position();
            if pos < prev_pos {
                return Err(format!("call #{}: buffer_position went back from {} to {}", calls - 1, prev_pos, pos));
            }
            if pos > s_len {
                return Err(format!("call #{}: buffer_position {} exceeds the input length {}", calls - 1, pos, s_len));
            }
            if epos > pos {
                return Err(format!("call #{}: error_position {} > buffer_position {} after {}", calls - 1, epos, pos, ev.show()));
            }
            prev_pos = pos;
            if $ns {
                // namespace machinery must stay usable whatever was read
                accessor_calls += 1;
            }
            match (&ev, done_after) {
                (Ev::Eof, None) => {
                    if calls > limit {
                        return Err(format!("Eof needed {} calls, bound 2*len+3 = {}", calls, limit));
                    }
                    done_after = Some(0)
                }
                (Ev::Err(e), None) if e.is_syntax() => done_after = Some(0),
                (Ev::Eof, Some(k)) => {
                    if k == 2 {
                        break;
                    }
                    done_after = Some(k + 1);
                }
                (other, Some(_)) => {
                    return Err(format!("call #{} after Eof / a syntax error returned {}", calls - 1, other.show()))
                }
                _ => {}
            }
        }
        Ok(Summary { calls, accessor_calls, kinds })
    }};
}

/// the skipping calls from every Start event make a run quadratic: only on inputs up to this length
const SKIP_CLONE_MAX: usize = 3000;

pub fn run_variant(v: Variant, input: &[u8], cfg: u8) -> Result<Summary, String> {
    let script = match v {
        Variant::Buf(p) | Variant::Async(p) | Variant::NsBuf(p) | Variant::NsAsync(p) => Script::pieces(p),
        Variant::BufEofOnce(k) | Variant::AsyncEofOnce(k) => Script { eof_once_at: Some(k), ..Script::whole() },
        _ => Script::whole(),
    };
    let horizon = input.len() + 16;
    let r = guarded_mut(|| -> Result<Summary, String> {
        match v {
            Variant::Slice => {
                let mut reader = Reader::from_reader(input);
                apply_cfg(reader.config_mut(), cfg);
                drive!(input, reader, {
                    let r = reader.read_event();
                    if let (Ok(Event::Start(e)), true) = (&r, input.len() <= SKIP_CLONE_MAX) {
                        // the skipping calls are read calls too: on a clone, from every Start event
                        let name = e.name().as_ref().to_vec();
                        let len = strip_bom(input).len() as u64;
                        for text in [false, true] {
                            let mut c = reader.clone();
                            let before = cfg_bits(c.config());
                            let pos0 = c.buffer_position();
                            if text {
                                let _ = c.read_text(quick_xml::name::QName(&name));
                            } else {
                                let _ = c.read_to_end(quick_xml::name::QName(&name));
                            }
                            if cfg_bits(c.config()) != before {
                                return Err(format!("read_to_end/read_text({:?}) changed the configuration", lossy(&name)));
                            }
                            if c.buffer_position() < pos0 || c.buffer_position() > len || c.error_position() > c.buffer_position() {
                                return Err(format!("after read_to_end/read_text({:?}): buffer_position {} (was {}), error_position {}, input length {}", lossy(&name), c.buffer_position(), pos0, c.error_position(), len));
                            }
                            // and the reader stays usable: it reaches Eof
                            let mut n = 0;
                            loop {
                                match c.read_event() {
                                    Ok(Event::Eof) => break,
                                    _ => {}
                                }
                                n += 1;
                                if n > 2 * input.len() + 8 {
                                    return Err(format!("after read_to_end/read_text({:?}) the reader does not reach Eof", lossy(&name)));
                                }
                            }
                        }
                    }
                    Some(r)
                }, false, true)
            }
            Variant::Buf(_) | Variant::BufEofOnce(_) => {
                let mut reader = Reader::from_reader(Source::new(input, &script));
                apply_cfg(reader.config_mut(), cfg);
                let mut buf = Vec::new();
                drive!(input, reader, { buf.clear(); Some(reader.read_event_into(&mut buf)) }, false, false)
            }
            Variant::Async(_) | Variant::AsyncEofOnce(_) => {
                let mut reader = Reader::from_reader(Source::new(input, &script));
                apply_cfg(reader.config_mut(), cfg);
                let mut buf = Vec::new();
                drive!(input, reader, { buf.clear(); block_on(reader.read_event_into_async(&mut buf), horizon) }, false, false)
            }
            Variant::NsSlice => {
                let mut reader = NsReader::from_reader(input);
                apply_cfg(reader.config_mut(), cfg);
                drive!(input, reader, {
                    let r = reader.read_resolved_event().map(|(_, e)| e);
                    if let (Ok(Event::Start(e)), true) = (&r, input.len() <= SKIP_CLONE_MAX) {
                        let name = e.name().as_ref().to_vec();
                        let mut c = reader.clone();
                        let _ = c.read_to_end(quick_xml::name::QName(&name));
                        let _ = c.prefixes().count();
                        let _ = c.resolve_element(quick_xml::name::QName(b"p:n"));
                        let mut n = 0;
                        loop {
                            match c.read_resolved_event() {
                                Ok((_, Event::Eof)) => break,
                                _ => {}
                            }
                            n += 1;
                            if n > 2 * input.len() + 8 {
                                return Err(format!("after NsReader::read_to_end({:?}) the reader does not reach Eof", lossy(&name)));
                            }
                        }
                    }
                    Some(r)
                }, true, true)
            }
            Variant::NsBuf(_) => {
                let mut reader = NsReader::from_reader(Source::new(input, &script));
                apply_cfg(reader.config_mut(), cfg);
                let mut buf = Vec::new();
                drive!(input, reader, { buf.clear(); Some(reader.read_resolved_event_into(&mut buf).map(|(_, e)| e)) }, true, false)
            }
            Variant::NsAsync(_) => {
                let mut reader = NsReader::from_reader(Source::new(input, &script));
                apply_cfg(reader.config_mut(), cfg);
                let mut buf = Vec::new();
                drive!(input, reader, { buf.clear(); block_on(reader.read_resolved_event_into_async(&mut buf), horizon).map(|r| r.map(|(_, e)| e)) }, true, false)
            }
        }
    });
    match r {
        Ok(x) => x,
        Err(p) => Err(format!("panic: {}", p)),
    }
}

/// Raw reads through `Reader::stream()` between the events (io::Read on the buffered reader, AsyncRead with
/// a `read_exact` that needs several polls on the async one): positions stay monotone and within the input,
/// Eof is reached and stays final.
pub fn run_stream_variant(input: &[u8], cfg: u8, is_async: bool, k: usize) -> Result<u64, String> {
    use tokio::io::AsyncReadExt;
    let script = Script::pieces(1);
    let horizon = 4 * input.len() + 64;
    let len = input.len() as u64;
    let r = guarded_mut(|| -> Result<u64, String> {
        let mut reader = Reader::from_reader(Source::new(input, &script));
        apply_cfg(reader.config_mut(), cfg);
        let mut buf = Vec::new();
        let mut calls = 0u64;
        let mut last = 0u64;
        let mut eofs = 0;
        for _ in 0..2 * input.len() + 12 {
            buf.clear();
            let ev = if is_async {
                match block_on(reader.read_event_into_async(&mut buf), horizon) {
                    Some(r) => Ev::from_result(&r),
                    None => return Err("async read did not complete".into()),
                }
            } else {
                Ev::from_result(&reader.read_event_into(&mut buf))
            };
            calls += 1;
            let pos = reader.buffer_position();
            if pos < last || pos > len || reader.error_position() > pos {
                return Err(format!("after call #{} ({}) buffer_position is {} (before: {}, input length {}), error_position {}", calls, ev.show(), pos, last, len, reader.error_position()));
            }
            last = pos;
            if ev == Ev::Eof {
                eofs += 1;
                if eofs == 3 {
                    return Ok(calls);
                }
                continue;
            }
            if eofs > 0 {
                return Err(format!("call #{} returned {} after Eof", calls, ev.show()));
            }
            if matches!(&ev, Ev::Err(e) if e.is_syntax()) {
                continue;
            }
            // a raw read of up to k bytes
            let mut bin = vec![0u8; k];
            let got = if is_async {
                let mut st = reader.stream();
                // read_exact re-polls with one partially filled ReadBuf; a short source ends it with UnexpectedEof
                match block_on(AsyncReadExt::read_exact(&mut st, &mut bin), horizon) {
                    Some(_) => {}
                    None => return Err("async raw read did not complete".into()),
                }
                0
            } else {
                let mut st = reader.stream();
                std::io::Read::read(&mut st, &mut bin).unwrap_or(0)
            };
            let _ = got;
            calls += 1;
            let pos = reader.buffer_position();
            if pos < last || pos > len {
                return Err(format!("after a raw read of {} bytes through stream() (call #{}) buffer_position is {} (before: {}, input length {})", k, calls, pos, last, len));
            }
            last = pos;
        }
        Err("no Eof within the call bound".into())
    });
    match r {
        Ok(x) => x,
        Err(p) => Err(format!("panic: {}", p)),
    }
}

fn sweep(ctx: &Ctx, ln: u32, sp: &Space, slice_cfgs: &[u8], other_cfgs: &[u8], count_distinct: bool) {
    let seed = ctx.seed;
    let mut desc = sp.desc.clone();
    desc["configurations_slice_reader"] = json!(slice_cfgs.len());
    desc["configurations_other_variants"] = json!(other_cfgs.len());
    desc["variants"] = json!(VARIANTS.iter().map(|v| format!("{:?}", v)).collect::<Vec<_>>());
    ctx.layer(&sp.name, ln, sp.total, desc, |i, acc| {
        let mut input = Vec::new();
        sp.get(i, &mut input);
        for (vi, &v) in VARIANTS.iter().enumerate() {
            let cfgs = if v == Variant::Slice { slice_cfgs } else { other_cfgs };
            for &cfg in cfgs {
                acc.evaluations += 1;
                acc.traces += 1;
                match run_variant(v, &input, cfg) {
                    Ok(s) => {
                        acc.transitions += s.calls as u64 + s.accessor_calls;
                        if vi == 0 && cfg == cfgs[0] {
                            acc.state(h64(&s.kinds));
                            if s.kinds.iter().any(|&k| k != 4 && k != 10) {
                                if count_distinct {
                                    acc.nt_count += 1;
                                } else {
                                    acc.nontrivial(h64(&input));
                                }
                            }
                        }
                    }
                    Err(what) => acc.violation(
                        (ln, i),
                        format!("input {:?} cfg [{}] {:?}: {}", lossy_head(&input), cfg_show(cfg), v, what),
                        json!({"input": bytes_json(&input), "cfg": cfg, "variant": vi}),
                    ),
                }
            }
        }
        // raw reads through stream() between events (sibling entry point of the same position bookkeeping)
        if input.len() <= 64 && !matches!(input.first(), Some(0xEF) | Some(0xFE) | Some(0xFF)) {
            for is_async in [false, true] {
                for k in [1usize, 3] {
                    acc.evaluations += 1;
                    match run_stream_variant(&input, other_cfgs[0], is_async, k) {
                        Ok(c) => acc.transitions += c,
                        Err(what) => acc.violation(
                            (ln, i),
                            format!("input {:?} cfg [{}] {} reader with raw reads of {} bytes through stream() after every event: {}", lossy_head(&input), cfg_show(other_cfgs[0]), if is_async { "async" } else { "buffered" }, k, what),
                            json!({"input": bytes_json(&input), "cfg": other_cfgs[0], "stream": k, "async": is_async}),
                        ),
                    }
                }
            }
        }
        acc.sample(seed, i ^ ((ln as u64) << 40), || json!({"layer": sp.name, "input": lossy(&input)}));
    });
}

/// "Eof is final" against a source that comes back to life: end-of-input is reported once at every
/// offset of every input, after which the source delivers the rest.
fn sweep_eof_once(ctx: &Ctx, ln: u32, sp: &Space, cfgs: &[u8]) {
    ctx.layer(&format!("{}.eof_once", sp.name), ln, sp.total, sp.desc.clone(), |i, acc| {
        let mut input = Vec::new();
        sp.get(i, &mut input);
        for k in 0..input.len() {
            for v in [Variant::BufEofOnce(k), Variant::AsyncEofOnce(k)] {
                for &cfg in cfgs {
                    acc.evaluations += 1;
                    acc.traces += 1;
                    match run_variant(v, &input, cfg) {
                        Ok(s) => {
                            acc.transitions += s.calls as u64 + s.accessor_calls;
                            acc.nontrivial(h64(&(&input, k)));
                        }
                        Err(what) => acc.violation(
                            (ln, i),
                            format!("input {:?} cfg [{}] {:?}: {}", lossy_head(&input), cfg_show(cfg), v, what),
                            json!({"input": bytes_json(&input), "cfg": cfg, "eof_once_at": k, "async": matches!(v, Variant::AsyncEofOnce(_))}),
                        ),
                    }
                }
            }
        }
    });
}

/// 64 byte values: all ASCII punctuation that matters, blanks, NUL, high bytes, BOM bytes.
pub static BYTES64: [u8; 64] = *b"<>/!-[]?\"'= \t\r\n&#;:aDxmlOCTYPEdoctyp019AZ_.{}()*+,@\\^|$%\x00\x7f\x80\xbb\xbf\xef\xfe\xff";

pub static ALL256: [u8; 256] = {
    let mut a = [0u8; 256];
    let mut i = 0;
    while i < 256 {
        a[i] = i as u8;
        i += 1;
    }
    a
};

pub fn run(ctx: &Ctx) {
    ctx.set_rule(
        "inputs: every string over ALL 256 byte values up to length 2 (x128 configurations) and length 3 (x3 configurations; \
         quick: a 64-byte subset); every string over the 14-byte markup alphabet (x128 configurations on the slice reader, \
         x4 on the others); atom sequences; construct contexts. Variants: Reader and NsReader over slice, buffered (1-byte \
         pieces, whole) and hand-polled async (1-byte pieces) sources; plus buffered/async sources that report end-of-input once \
         at every offset and then deliver the rest (Eof must stay final). Checked on every execution under catch_unwind with \
         debug assertions + overflow checks on: no panic; Eof within 2*len+3 calls; three further calls after Eof / after a \
         syntax error return Eof; buffer_position monotone and <= length; error_position <= buffer_position; every payload \
         accessor of every event invoked (names, attributes x4 modes to exhaustion + 2, unescape, trimming, CDATA escapes, \
         declaration fields, PI parts, into_owned/borrow/to_end round trips); on inputs up to 64 bytes also with raw reads of 1 and 3 bytes through Reader::stream() after every event (io::Read / AsyncRead::read_exact over 1-byte pieces). non-trivial = stream has markup or an error; \
         distinct inputs. states = distinct event-kind sequences",
    );
    ctx.assume("in-memory sources never fail: I/O errors are C18's business");
    let t = ctx.tier;
    let full = cfg!(feature = "full");
    let all: Vec<u8> = (0..128).collect();
    let three = [DEFAULT, 127u8, 0u8];
    let four = [DEFAULT, 127u8, 0u8, NEUTRAL];
    if !full {
        sweep(ctx, 0, &raw("B256.len<=2(min)", &ALL256, 2), &three, &three, true);
        sweep(ctx, 1, &raw("A.raw(min)", SIGMA_M, t.pick(4, 5)), &four, &four, false);
        sweep(ctx, 2, &context("Init.bom", &[b"", b"\xEF\xBB", b"\xEF\xBB\xBF", b"\xFE\xFF", b"\xFF\xFE"], b"<?xml >a\x00", t.pick(3, 4), &[b""], false), &three, &three, false);
        return;
    }
    sweep(ctx, 0, &raw("B256.len<=2", &ALL256, 2), &all, &four, true);
    if t == Tier::Quick {
        sweep(ctx, 1, &raw("B64.len<=3", &BYTES64, 3), &three, &three, false);
    } else {
        sweep(ctx, 1, &raw("B256.len<=3", &ALL256, 3), &three, &three, false);
    }
    sweep(ctx, 2, &raw("A.raw", SIGMA_M, t.pick(5, 6)), &all, &four, false);
    sweep(ctx, 3, &atoms("C.atoms", ATOMS_C, t.pick(3, 4)), &all, &four, false);
    let mut ln = 4;
    for sp in contexts(|m| t.pick(m.min(4), m.min(6)), true) {
        sweep(ctx, ln, &sp, &all, &four, false);
        ln += 1;
    }
    sweep(ctx, ln, &context("Init.bom", &[b"", b"\xEF\xBB", b"\xEF\xBB\xBF", b"\xFE\xFF", b"\xFF\xFE", b"\x00<\x00?", b"<\x00?\x00"], b"<?xml >a\x00", t.pick(4, 5), &[b""], false), &three, &three, false);
    sweep(ctx, ln + 3, &ws_class(), &four, &[DEFAULT], false);
    sweep(ctx, ln + 4, &mid_bom(t.pick(3, 4)), &four, &four, false);
    // size thresholds: every template through the small sizes; depth / count / long-name templates up to 2^16 (+2)
    sweep(ctx, ln + 5, &stretch("S.stretch", STRETCH_READER, t.pick(12, 70), t.pick(10, 12), t.pick(4, 7)), &three, &[DEFAULT], false);
    sweep(ctx, ln + 6, &stretch_lists("S.deep", STRETCH_DEEP, pow_sizes(11, t.pick(16, 17)), vec![0, 1, 2, 3]), &[DEFAULT, 127u8], &[DEFAULT], false);
    sweep_eof_once(ctx, ln + 1, &raw("A.raw", SIGMA_M, t.pick(4, 5)), &three);
    sweep_eof_once(ctx, ln + 2, &atoms("C.atoms", ATOMS_C, t.pick(2, 3)), &three);
}

pub fn replay(case: &Value) -> Result<(), String> {
    let input = bytes_from_json(&case["input"]);
    let cfg = case["cfg"].as_u64().unwrap_or(DEFAULT as u64) as u8;
    if let Some(k) = case.get("stream").and_then(|k| k.as_u64()) {
        let is_async = case["async"].as_bool().unwrap_or(false);
        println!("input: {:?} cfg [{}] raw reads of {} bytes through stream(), async={}", lossy_head(&input), cfg_show(cfg), k, is_async);
        return run_stream_variant(&input, cfg, is_async, k as usize).map(|c| println!("ok: {} calls", c));
    }
    let v = match case.get("eof_once_at").and_then(|k| k.as_u64()) {
        Some(k) if case["async"].as_bool() == Some(true) => Variant::AsyncEofOnce(k as usize),
        Some(k) => Variant::BufEofOnce(k as usize),
        None => VARIANTS[case["variant"].as_u64().unwrap_or(0) as usize],
    };
    println!("input: {:?} cfg [{}] variant {:?}", lossy_head(&input), cfg_show(cfg), v);
    let mut obs = Vec::new();
    run_slice(&input, cfg, 3, &mut obs);
    println!("slice reader trace:");
    for o in show_trace(&obs) {
        println!("  {}", o.as_str().unwrap());
    }
    run_variant(v, &input, cfg).map(|s| println!("ok: {} calls, {} accessor calls", s.calls, s.accessor_calls))
}
