//! C18 — Source I/O faults are transparent (interrupts) or reported once (errors).
//!
//! Fault enumeration: for every document, chunking and configuration the fault-free run is
//! recorded; then every refill call index is used as a fault point — `Interrupted` up to a
//! deviation bound (singles, every pair, consecutive triples), a hard error of two kinds — for the
//! buffered and the hand-polled async reader.

use crate::common::*;
use crate::env::*;
use crate::inputs::*;
use crate::models::lex::{lex, strip_bom, Kind};
use crate::props::c02::{run_src, Src};
use crate::trace::*;
use serde_json::{json, Value};
use std::io::ErrorKind;

fn run_one(src: Src, input: &[u8], cfg: u8, script: &Script, stop: bool, out: &mut Vec<Obs>) -> RunInfo {
    match src {
        Src::Buffered => run_buffered(input, cfg, script, 1, stop, out),
        Src::Async => run_async(input, cfg, script, 1, stop, out),
    }
}

fn show(o: Option<&Obs>) -> String {
    o.map_or("<nothing>".to_string(), |o| format!("{} pos={} err_pos={}", o.ev.show(), o.pos, o.err_pos))
}

struct Case<'a> {
    input: &'a [u8],
    cfg: u8,
    src: Src,
    base: &'a Script,
    reference: &'a [Obs],
    spans: &'a [(usize, usize)],
    order: (u32, u64),
}

impl<'a> Case<'a> {
    fn json(&self, s: &Script) -> Value {
        json!({"input": bytes_json(self.input), "cfg": self.cfg, "source": format!("{:?}", self.src), "script": s.to_json()})
    }
    fn head(&self, s: &Script) -> String {
        format!("input {:?} cfg [{}] {:?} source, script {}", lossy(self.input), cfg_show(self.cfg), self.src, s.to_json())
    }

    /// Interrupted answers at the scripted calls must be invisible.
    fn interrupted(&self, acc: &mut Acc, s: &Script) -> usize {
        let mut got = Vec::new();
        let info = run_one(self.src, self.input, self.cfg, s, false, &mut got);
        acc.evaluations += 1;
        acc.traces += 1;
        acc.transitions += got.len() as u64;
        acc.count("interrupt_runs", 1);
        if info.faults_fired != s.faults.len() {
            acc.violation(self.order, format!("MACHINERY: {} scripted faults, {} fired", s.faults.len(), info.faults_fired), self.json(s));
        }
        if info.fault_offsets.iter().any(|&o| self.spans.iter().any(|&(a, b)| a < o && o < b)) {
            acc.nt_count += 1;
        }
        if got != self.reference || info.stuck || info.misuse.is_some() {
            let i = (0..got.len().max(self.reference.len())).find(|&i| got.get(i) != self.reference.get(i)).unwrap_or(0);
            acc.violation(
                self.order,
                format!("{}: Interrupted is not transparent: call #{} fault-free {}, with interrupts {}", self.head(s), i, show(self.reference.get(i)), show(got.get(i))),
                self.json(s),
            );
        }
        info.fill_calls
    }

    /// A hard error at call `i` must surface as Error::Io of that kind after an exact prefix.
    fn hard(&self, acc: &mut Acc, i: usize, kind: ErrorKind) {
        let mut s = self.base.clone();
        s.faults.push((i, Fault::Hard(kind)));
        let mut got = Vec::new();
        let info = run_one(self.src, self.input, self.cfg, &s, true, &mut got);
        acc.evaluations += 1;
        acc.traces += 1;
        acc.transitions += got.len() as u64;
        acc.count("hard_error_runs", 1);
        if info.fault_offsets.iter().any(|&o| self.spans.iter().any(|&(a, b)| a < o && o < b)) {
            acc.nt_count += 1;
        }
        let what = if info.faults_fired != 1 {
            Some(format!("MACHINERY: hard fault at call {} did not fire", i))
        } else {
            match got.split_last() {
                None => Some("no call was made".to_string()),
                Some((last, before)) => {
                    let prefix_ok = before.len() < self.reference.len() && before == &self.reference[..before.len()];
                    let io_ok = matches!(&last.ev, Ev::Err(E::Io(k, _)) if *k == kind);
                    if !io_ok {
                        Some(format!(
                            "I/O error ({:?}) at refill #{} was not returned as Error::Io: the call returned {} (fault-free run: {})",
                            kind, i, show(Some(last)), show(self.reference.get(before.len()))
                        ))
                    } else if !prefix_ok {
                        let j = (0..before.len()).find(|&j| before.get(j) != self.reference.get(j)).unwrap_or(before.len());
                        Some(format!(
                            "events before the I/O error are not a prefix of the fault-free run: call #{} {} vs fault-free {}",
                            j, show(before.get(j)), show(self.reference.get(j))
                        ))
                    } else if last.pos < before.last().map_or(0, |o| o.pos) || last.pos > self.input.len() as u64 {
                        // C03's clause under faults: reported positions never decrease and stay within the input
                        Some(format!(
                            "after the I/O error at refill #{} buffer_position() is {} (before the failing call: {}, input length {})",
                            i, last.pos, before.last().map_or(0, |o| o.pos), self.input.len()
                        ))
                    } else {
                        None
                    }
                }
            }
        };
        if let Some(w) = what {
            acc.violation(self.order, format!("{}: {}", self.head(&s), w), self.json(&s));
            return;
        }
        // "no event is fabricated from partial data" also holds for the calls that follow the error: whether the
        // reader then answers Eof for ever or reads on is not stated, but an event it returns must be an
        // event of the fault-free run, at the same position (checked on the three fixed kinds only)
        if matches!(kind, ErrorKind::Other | ErrorKind::UnexpectedEof) {
            let mut more = Vec::new();
            run_one(self.src, self.input, self.cfg, &s, false, &mut more);
            acc.evaluations += 1;
            acc.count("runs_continued_after_the_error", 1);
            if let Some(k) = more.iter().position(|o| matches!(&o.ev, Ev::Err(E::Io(..)))) {
                for o in &more[k + 1..] {
                    let fine = match &o.ev {
                        Ev::Eof => true,
                        Ev::Err(E::Io(..)) => true,
                        _ => self.reference.iter().any(|r| r.ev == o.ev && r.pos == o.pos),
                    };
                    if !fine {
                        acc.violation(
                            self.order,
                            format!("{}: after the I/O error at refill #{} a later call returned {}, which is not an event of the fault-free run at that position (fabricated from partial data)", self.head(&s), i, show(Some(o))),
                            self.json(&s),
                        );
                        break;
                    }
                }
            }
        }
    }

    fn explore(&self, acc: &mut Acc, calls: usize, pair_bound: bool) {
        // every error kind at every index on the shortest inputs only (the rest: three fixed kinds + one in rotation)
        let all_kinds = self.input.len() <= 3;
        // Interrupted: deviation bound 1, then 2 (every pair, includes consecutive), consecutive triples
        for i in 0..calls {
            let mut s1 = self.base.clone();
            s1.faults.push((i, Fault::Interrupted));
            let calls1 = self.interrupted(acc, &s1);
            if pair_bound {
                for j in i + 1..calls1 {
                    let mut s2 = s1.clone();
                    s2.faults.push((j, Fault::Interrupted));
                    self.interrupted(acc, &s2);
                }
            }
            let mut s3 = s1.clone();
            s3.faults.push((i + 1, Fault::Interrupted));
            s3.faults.push((i + 2, Fault::Interrupted));
            self.interrupted(acc, &s3);
            // hard errors: two fixed kinds, the one that looks like an end of input, and one of the rest in rotation
            self.hard(acc, i, ErrorKind::Other);
            self.hard(acc, i, ErrorKind::BrokenPipe);
            self.hard(acc, i, ErrorKind::UnexpectedEof);
            if all_kinds {
                for &k in ALL_KINDS.iter() {
                    self.hard(acc, i, k);
                }
            } else {
                self.hard(acc, i, ALL_KINDS[(i + self.input.len()) % ALL_KINDS.len()]);
            }
            // long runs of interrupts at one refill ("any number of times")
            if all_kinds || i < 2 || i + 2 >= calls {
                for k in [17usize, 40] {
                    let mut s = self.base.clone();
                    for j in 0..k {
                        s.faults.push((i + j, Fault::Interrupted));
                    }
                    self.interrupted(acc, &s);
                }
            }
        }
        // interrupt storms: an interrupt before every single piece; two before every piece
        for per in [1usize, 2] {
            let mut s = self.base.clone();
            let mut at = 0;
            for _ in 0..calls {
                for _ in 0..per {
                    s.faults.push((at, Fault::Interrupted));
                    at += 1;
                }
                at += 1;
            }
            self.interrupted(acc, &s);
        }
    }
}

/// every `io::ErrorKind` a source can reasonably answer with, except `Interrupted`
const ALL_KINDS: [ErrorKind; 18] = [
    ErrorKind::NotFound, ErrorKind::PermissionDenied, ErrorKind::ConnectionRefused, ErrorKind::ConnectionReset, ErrorKind::ConnectionAborted,
    ErrorKind::NotConnected, ErrorKind::AddrInUse, ErrorKind::AddrNotAvailable, ErrorKind::AlreadyExists, ErrorKind::WouldBlock,
    ErrorKind::InvalidInput, ErrorKind::InvalidData, ErrorKind::TimedOut, ErrorKind::WriteZero, ErrorKind::UnexpectedEof, ErrorKind::Unsupported,
    ErrorKind::OutOfMemory, ErrorKind::Other,
];

fn markup_spans(input: &[u8]) -> Vec<(usize, usize)> {
    let s = strip_bom(input);
    let off = input.len() - s.len();
    let l = lex(s);
    let mut v: Vec<(usize, usize)> = l.toks.iter().filter(|t| t.kind != Kind::Text).map(|t| (t.span.start + off, t.span.end + off)).collect();
    if let Some((_, at)) = l.fatal {
        v.push((at + off, input.len()));
    }
    v
}

fn check_doc(acc: &mut Acc, order: (u32, u64), input: &[u8], cfgs: &[u8], pieces: &[usize], pair_bound: bool, seed: u64) {
    let spans = markup_spans(input);
    for &p in pieces {
        let base = if p == 0 { Script::whole() } else { Script::pieces(p) };
        for &cfg in cfgs {
            for src in [Src::Buffered, Src::Async] {
                let mut reference = Vec::new();
                let info = run_one(src, input, cfg, &base, false, &mut reference);
                acc.evaluations += 1;
                acc.state(h64(&(reference.iter().map(|o| o.ev.kind()).collect::<Vec<_>>(), info.fill_calls.min(16))));
                let c = Case { input, cfg, src, base: &base, reference: &reference, spans: &spans, order };
                c.explore(acc, info.fill_calls, pair_bound);
                if h64(&(seed, order, p, cfg)) % 500 == 0 {
                    // determinism of the harness: the fault-free run replays identically
                    let mut again = Vec::new();
                    run_one(src, input, cfg, &base, false, &mut again);
                    acc.count("replayed_twice", 1);
                    if again != reference {
                        acc.violation(order, "MACHINERY: fault-free run is not deterministic".into(), c.json(&base));
                    }
                }
            }
        }
    }
}

pub fn run(ctx: &mut Ctx) {
    ctx.level = "fault_enumeration";
    ctx.set_rule(
        "documents: layers A (strings over the markup alphabet), C (atom sequences), D (construct contexts), small sample \
         documents; chunkings: piece sizes 1, 2, 3, whole; configurations neutral, default, neutral+text trimming; sources: \
         buffered and hand-polled async. For each combination the fault-free run fixes the number N of refill calls; then for \
         EVERY call index i < N: Interrupted at i; Interrupted at every pair i < j; three consecutive Interrupted from i; a hard \
         error (ErrorKind::Other, BrokenPipe, UnexpectedEof and one of 18 kinds in rotation; all 18 on inputs of <= 3 bytes) at i; 17 and 40 consecutive Interrupted from the first two and last two refills (inputs <= 3 bytes: from every i); an Interrupted (and two) before every single piece. Oracle: interrupts leave the whole trace (events, errors, both positions, \
         one call after Eof) identical; a hard error yields an exact prefix of the fault-free trace followed by Error::Io of \
         that kind (nothing is asserted about calls after it). non-trivial = the fault fires while a markup construct is \
         partially consumed (source offset strictly inside a construct's span, spans from the reference lexer); counted per \
         faulty run, distinct by construction",
    );
    ctx.assume("about calls made after an I/O error only this is asserted: an event they return is an event of the fault-free run at the same position (Eof for ever and reading on are both accepted)");
    let t = ctx.tier;
    let full = cfg!(feature = "full");
    let seed = ctx.seed;
    let cfgs = [NEUTRAL, DEFAULT, NEUTRAL | TRIM_START | TRIM_END];
    let pieces = [1usize, 2, 3, 0];
    let mut spaces = Vec::new();
    if !full {
        spaces.push((raw("A.raw(min)", SIGMA_M, t.pick(3, 4)), 64));
        spaces.push((context("Init.bom", &[b"", b"\xEF\xBB\xBF"], b"<?xml >a", t.pick(3, 4), &[b""], false), 64));
    } else {
        spaces.push((raw("A.raw", SIGMA_M, t.pick(5, 6)), 64));
        spaces.push((atoms("C.atoms", ATOMS_C, t.pick(3, 4)), t.pick(16, 20)));
        for sp in contexts(|m| t.pick(m.min(3), m.min(5)), true) {
            spaces.push((sp, 20));
        }
    }
    for (ln, (sp, maxlen)) in spaces.iter().enumerate() {
        let mut desc = sp.desc.clone();
        desc["max_total_len"] = json!(maxlen);
        ctx.layer(&sp.name, ln as u32, sp.total, desc, |i, acc| {
            let mut input = Vec::new();
            sp.get(i, &mut input);
            if input.len() > *maxlen {
                acc.count("inputs_skipped_too_long", 1);
                return;
            }
            check_doc(acc, (ln as u32, i), &input, &cfgs, &pieces, true, seed);
            acc.sample(seed, i ^ ((ln as u64) << 40), || json!({"layer": sp.name, "input": lossy(&input), "example_fault": "Interrupted / Other / BrokenPipe at every refill index"}));
        });
    }
    if full {
        // corpus: the six smallest files, single faults (+ consecutive triples) at every refill index
        let mut docs = corpus();
        docs.sort_by_key(|d| d.1.len());
        docs.truncate(6);
        let ln = spaces.len() as u32;
        let sizes = [7usize, 61, 0];
        ctx.layer("E.corpus_small", ln, docs.len() as u64 * 3, json!({"files": docs.iter().map(|d| d.0.clone()).collect::<Vec<_>>(), "piece_sizes": [7, 61, "whole"]}), |i, acc| {
            let d = &docs[(i / 3) as usize];
            let p = sizes[(i % 3) as usize];
            if d.1.starts_with(&[0xEF]) && p != 0 && p < 4 {
                return;
            }
            check_doc(acc, (ln, i), &d.1, &[DEFAULT], &[p], false, seed);
            acc.nontrivial(h64(&(&d.0, p)));
        });
        // size thresholds: stretched inputs, pieces of 7 and 64 bytes and whole; single faults and consecutive triples at every refill index
        let st = stretch("S.stretch", STRETCH_READER, t.pick(6, 24), t.pick(8, 11), t.pick(2, 4));
        let max_len = t.pick(700, 4000);
        let ln = ln + 1;
        ctx.layer(&st.name, ln, st.total, st.desc.clone(), |i, acc| {
            let mut input = Vec::new();
            st.get(i, &mut input);
            if input.len() > max_len {
                acc.count("inputs_skipped_too_long", 1);
                return;
            }
            // the number of faulty runs is quadratic in the number of refills: small pieces on short inputs only
            let pieces: &[usize] = if input.len() <= 160 { &[7, 64, 0] } else { &[64, 0] };
            check_doc(acc, (ln, i), &input, t.pick(&[DEFAULT][..], &[DEFAULT, NEUTRAL | TRIM_START | TRIM_END][..]), pieces, false, seed);
            acc.nontrivial(h64(&input));
        });
    }
}

pub fn replay(case: &Value) -> Result<(), String> {
    let input = bytes_from_json(&case["input"]);
    let cfg = case["cfg"].as_u64().unwrap_or(NEUTRAL as u64) as u8;
    let script = Script::from_json(&case["script"]);
    let src = if case["source"].as_str() == Some("Async") { Src::Async } else { Src::Buffered };
    let mut base = script.clone();
    base.faults.clear();
    let mut reference = Vec::new();
    run_one(src, &input, cfg, &base, false, &mut reference);
    let hard = script.faults.iter().any(|f| matches!(f.1, Fault::Hard(_)));
    let mut got = Vec::new();
    let info = run_one(src, &input, cfg, &script, hard, &mut got);
    println!("input: {:?} cfg [{}] {:?} script {}", lossy_head(&input), cfg_show(cfg), src, script.to_json());
    println!("fault-free:");
    for o in show_trace(&reference) {
        println!("  {}", o.as_str().unwrap());
    }
    println!("with faults (fired at offsets {:?}):", info.fault_offsets);
    for o in show_trace(&got) {
        println!("  {}", o.as_str().unwrap());
    }
    let _ = run_src;
    if hard {
        let (last, before) = got.split_last().ok_or("no call")?;
        let kind = script.faults.iter().find_map(|f| if let Fault::Hard(k) = f.1 { Some(k) } else { None }).unwrap();
        if !matches!(&last.ev, Ev::Err(E::Io(k, _)) if *k == kind) {
            return Err(format!("I/O error not returned as Error::Io: {}", show(Some(last))));
        }
        if !(before.len() < reference.len() && before == &reference[..before.len()]) {
            return Err("events before the error are not a prefix of the fault-free run".into());
        }
        Ok(())
    } else if got != reference {
        Err("Interrupted is not transparent".into())
    } else {
        Ok(())
    }
}
