use crate::common::Ctx;
use serde_json::Value;

pub mod c01;
pub mod c02;
pub mod c10;
pub mod c16;

pub type RunFn = fn(&mut Ctx);

pub fn find(id: &str) -> Option<(&'static str, RunFn)> {
    Some(match id {
        "C01" => ("C01", |c| c01::run(c)),
        "C02" => ("C02", |c| c02::run(c)),
        "C10" => ("C10", |c| c10::run(c)),
        "C16" => ("C16", |c| c16::run(c)),
        _ => return None,
    })
}

pub fn replay(id: &str, case: &Value) -> Result<(), String> {
    match id {
        "C01" => c01::replay(case),
        "C02" => c02::replay(case),
        "C10" => c10::replay(case),
        "C16" => c01::replay(case),
        _ => Err(format!("no replay for {}", id)),
    }
}
