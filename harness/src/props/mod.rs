use crate::common::Ctx;
use serde_json::Value;

pub mod c01;
pub mod c02;
pub mod c03;
pub mod c04;
pub mod c05;
pub mod c06;
pub mod c07;
pub mod c08;
pub mod c09;
pub mod c10;
pub mod c11;
pub mod c12;
pub mod c13;
pub mod c14;
pub mod c15;
pub mod c16;
#[cfg(feature = "full")]
pub mod c17;
#[cfg(not(feature = "full"))]
pub mod c17 {
    //! C17 needs the `encoding` feature: only the `full` build has it.
    pub fn run(_ctx: &crate::common::Ctx) {
        eprintln!("C17 needs the full build");
        std::process::exit(2);
    }
    pub fn replay(_case: &serde_json::Value) -> Result<(), String> {
        Err("C17 needs the full build".into())
    }
}
pub mod c18;
pub mod c19;
#[cfg(feature = "full")]
pub mod c20;
#[cfg(not(feature = "full"))]
pub mod c20 {
    //! C20 needs the `overlapped-lists` feature: only the `full` build has it.
    pub fn run(_ctx: &crate::common::Ctx) {
        eprintln!("C20 needs the full build");
        std::process::exit(2);
    }
    pub fn replay(_case: &serde_json::Value) -> Result<(), String> {
        Err("C20 needs the full build".into())
    }
}

pub type RunFn = fn(&mut Ctx);

macro_rules! table {
    ($( $id:literal => $run:path, $replay:path; )*) => {
        pub fn find(id: &str) -> Option<(&'static str, RunFn)> {
            match id {
                $( $id => Some(($id, |c| $run(c))), )*
                _ => None,
            }
        }
        pub fn replay(id: &str, case: &Value) -> Result<(), String> {
            match id {
                $( $id => $replay(case), )*
                _ => Err(format!("no replay for {}", id)),
            }
        }
    };
}

table! {
    "C01" => c01::run, c01::replay;
    "C02" => c02::run, c02::replay;
    "C03" => c03::run, c03::replay;
    "C04" => c04::run, c04::replay;
    "C05" => c05::run, c05::replay;
    "C06" => c06::run, c06::replay;
    "C07" => c07::run, c07::replay;
    "C08" => c08::run, c08::replay;
    "C09" => c09::run, c09::replay;
    "C10" => c10::run, c10::replay;
    "C11" => c11::run, c11::replay;
    "C12" => c12::run, c12::replay;
    "C13" => c13::run, c13::replay;
    "C14" => c14::run, c14::replay;
    "C15" => c15::run, c15::replay;
    "C16" => c16::run, c01::replay;
    "C17" => c17::run, c17::replay;
    "C18" => c18::run, c18::replay;
    "C19" => c19::run, c19::replay;
    "C20" => c20::run, c20::replay;
}
