//! C05 — Namespace resolution follows the declarations in scope at each event.
//!
//! Documents are generated from a small tree family with declarations, re-declarations,
//! un-declarations and shadowing; consumer histories (read_event / read_resolved_event /
//! read_to_end / read_text at every Start) are walked exhaustively; after every call the complete
//! observable namespace state is compared with a scope chain computed from the document tree.

use crate::common::*;
use crate::env::*;
use quick_xml::events::{BytesStart, Event};
use quick_xml::name::{Namespace, PrefixDeclaration, QName, ResolveResult};
use quick_xml::reader::NsReader;
use serde_json::{json, Value};
use std::collections::BTreeMap;

const XSI: &str = "http://www.w3.org/2001/XMLSchema-instance";
const XML_NS: &[u8] = b"http://www.w3.org/XML/1998/namespace";
const XMLNS_NS: &[u8] = b"http://www.w3.org/2000/xmlns/";

/// declaration atoms: (prefix, uri); prefix "" = default namespace
const DECLS: [(&str, &str); 6] = [("", "u1"), ("", ""), ("p", "u1"), ("p", "u2"), ("p", ""), ("q", "u1")];

/// all declaration sets of size <= 2 (no two declarations of the same prefix on one element)
fn decl_sets(max: usize) -> Vec<Vec<usize>> {
    let mut v = vec![vec![]];
    for i in 0..DECLS.len() {
        v.push(vec![i]);
    }
    if max >= 2 {
        for i in 0..DECLS.len() {
            for j in i + 1..DECLS.len() {
                if DECLS[i].0 != DECLS[j].0 {
                    v.push(vec![i, j]);
                }
            }
        }
    }
    v
}

#[derive(Clone, PartialEq, Eq, Hash)]
enum R {
    Bound(Vec<u8>),
    Unbound,
    Unknown(Vec<u8>),
}

impl std::fmt::Debug for R {
    fn fmt(&self, f: &mut std::fmt::Formatter) -> std::fmt::Result {
        match self {
            R::Bound(n) if n == XML_NS => write!(f, "Bound(<xml>)"),
            R::Bound(n) if n == XMLNS_NS => write!(f, "Bound(<xmlns>)"),
            R::Bound(n) if n == XSI.as_bytes() => write!(f, "Bound(<xsi>)"),
            R::Bound(n) => write!(f, "Bound({})", lossy(n)),
            R::Unbound => write!(f, "Unbound"),
            R::Unknown(p) => write!(f, "Unknown({})", lossy(p)),
        }
    }
}

impl R {
    fn of(r: &ResolveResult) -> R {
        match r {
            ResolveResult::Bound(Namespace(n)) => R::Bound(n.to_vec()),
            ResolveResult::Unbound => R::Unbound,
            ResolveResult::Unknown(p) => R::Unknown(p.clone()),
        }
    }
}

/// One scope = the declarations of one element.
type Scope = Vec<(Vec<u8>, Vec<u8>)>;

/// Reference resolver: the chain of scopes from the root to the current element.
fn resolve(chain: &[Scope], name: &[u8], attribute: bool) -> R {
    let prefix: Option<&[u8]> = name.iter().position(|&b| b == b':').map(|i| &name[..i]);
    match prefix {
        None => {
            if attribute {
                return R::Unbound; // unprefixed attributes are never in the default namespace
            }
            for sc in chain.iter().rev() {
                for (p, u) in sc.iter().rev() {
                    if p.is_empty() {
                        return if u.is_empty() { R::Unbound } else { R::Bound(u.clone()) };
                    }
                }
            }
            R::Unbound
        }
        Some(b"xml") => R::Bound(XML_NS.to_vec()),
        Some(b"xmlns") => R::Bound(XMLNS_NS.to_vec()),
        Some(p) => {
            for sc in chain.iter().rev() {
                for (dp, u) in sc.iter().rev() {
                    if dp == p {
                        return if u.is_empty() { R::Unknown(p.to_vec()) } else { R::Bound(u.clone()) };
                    }
                }
            }
            R::Unknown(p.to_vec())
        }
    }
}

fn in_scope_prefixes(chain: &[Scope]) -> BTreeMap<Vec<u8>, Vec<u8>> {
    let mut m: BTreeMap<Vec<u8>, Vec<u8>> = BTreeMap::new();
    for sc in chain {
        for (p, u) in sc {
            if u.is_empty() {
                m.remove(p);
            } else {
                m.insert(p.clone(), u.clone());
            }
        }
    }
    m
}

const PROBES: [&[u8]; 6] = [b"n", b"p:n", b"q:n", b"xml:n", b"xmlns:n", b"z:n"];

/// Complete observable namespace state of a reader, as a comparable value.
#[derive(Clone, PartialEq, Eq, Hash)]
struct NsState {
    elem: Vec<R>,
    attr: Vec<R>,
    prefixes: BTreeMap<Vec<u8>, Vec<u8>>,
    dup_prefixes: bool,
    /// a resolved name came back with a local part other than the bytes after its colon
    wrong_local: Option<(Vec<u8>, Vec<u8>)>,
}

impl std::fmt::Debug for NsState {
    fn fmt(&self, f: &mut std::fmt::Formatter) -> std::fmt::Result {
        let names: Vec<String> = PROBES.iter().map(|p| lossy(p)).collect();
        write!(f, "{{elements:")?;
        for (n, r) in names.iter().zip(&self.elem) {
            write!(f, " {}={:?}", n, r)?;
        }
        write!(f, "; attributes:")?;
        for (n, r) in names.iter().zip(&self.attr) {
            write!(f, " {}={:?}", n, r)?;
        }
        write!(f, "; prefixes():")?;
        for (p, u) in &self.prefixes {
            write!(f, " {}={}", if p.is_empty() { "(default)".to_string() } else { lossy(p) }, if u == XSI.as_bytes() { "<xsi>".to_string() } else { lossy(u) })?;
        }
        if self.dup_prefixes {
            write!(f, " (DUPLICATE ENTRIES)")?;
        }
        if let Some((n, l)) = &self.wrong_local {
            write!(f, " (resolving {:?}: local name / generic resolve() disagreement: {:?})", lossy(n), lossy(l))?;
        }
        write!(f, "}}")
    }
}

fn observe<Rd>(r: &NsReader<Rd>) -> NsState {
    let mut prefixes = BTreeMap::new();
    let mut dup = false;
    for (p, Namespace(ns)) in r.prefixes() {
        let key = match p {
            PrefixDeclaration::Default => Vec::new(),
            PrefixDeclaration::Named(n) => n.to_vec(),
        };
        if prefixes.insert(key, ns.to_vec()).is_some() {
            dup = true;
        }
    }
    let mut wrong_local = None;
    let mut elem = Vec::with_capacity(PROBES.len());
    let mut attr = Vec::with_capacity(PROBES.len());
    for n in PROBES.iter() {
        let want = n.iter().position(|&b| b == b':').map_or(&n[..], |i| &n[i + 1..]);
        let (re, le) = r.resolve_element(QName(n));
        let (ra, la) = r.resolve_attribute(QName(n));
        // the generic entry point must agree with the two specialised ones
        let (ge, gle) = r.resolve(QName(n), false);
        let (ga, gla) = r.resolve(QName(n), true);
        if (R::of(&ge) != R::of(&re) || R::of(&ga) != R::of(&ra) || gle.as_ref() != le.as_ref() || gla.as_ref() != la.as_ref()) && wrong_local.is_none() {
            wrong_local = Some((n.to_vec(), format!("resolve(_, false) = {:?}, resolve_element = {:?}; resolve(_, true) = {:?}, resolve_attribute = {:?}", R::of(&ge), R::of(&re), R::of(&ga), R::of(&ra)).into_bytes()));
        }
        if (le.as_ref() != want || la.as_ref() != want) && wrong_local.is_none() {
            wrong_local = Some((n.to_vec(), if le.as_ref() != want { le.as_ref().to_vec() } else { la.as_ref().to_vec() }));
        }
        elem.push(R::of(&re));
        attr.push(R::of(&ra));
    }
    NsState {
        wrong_local,
        elem,
        attr,
        prefixes,
        dup_prefixes: dup,
    }
}

fn model_state(chain: &[Scope]) -> NsState {
    NsState {
        elem: PROBES.iter().map(|n| resolve(chain, n, false)).collect(),
        attr: PROBES.iter().map(|n| resolve(chain, n, true)).collect(),
        prefixes: in_scope_prefixes(chain),
        dup_prefixes: false,
        wrong_local: None,
    }
}

// ------------------------------------------------------------------------------------------------
// Document family

#[derive(Clone, Debug)]
struct Elem {
    name: &'static str,
    decls: Vec<usize>,
    attr: u8,      // 0 none, 1 x="1", 2 p:x="1"
    nil: u8,       // 0 none, 1 xsi:nil="true" with xmlns:xsi declared here, 2 i:nil="true" (i declared on the root)
    text: bool,
    empty_form: bool, // written as <e/> (only for leaves without text)
    children: Vec<Elem>,
    /// a legal, redundant `xmlns:xml="http://www.w3.org/XML/1998/namespace"` written before the other declarations
    xml_decl: bool,
}

/// blanks written in front of every attribute (the presentation layer varies them)
const SEPS: [&str; 5] = [" ", "\t", "\n", "\r\n\t", "  "];

fn write_elem(e: &Elem, sep: &str, out: &mut Vec<u8>) {
    out.push(b'<');
    out.extend_from_slice(e.name.as_bytes());
    if e.xml_decl {
        out.extend_from_slice(format!("{}xmlns:xml='http://www.w3.org/XML/1998/namespace'", sep).as_bytes());
    }
    for &d in &e.decls {
        let (p, u) = DECLS[d];
        if p.is_empty() {
            out.extend_from_slice(format!("{}xmlns=\"{}\"", sep, u).as_bytes());
        } else {
            out.extend_from_slice(format!("{}xmlns:{}='{}'", sep, p, u).as_bytes());
        }
    }
    match e.attr {
        1 => out.extend_from_slice(format!("{}x=\"1\"", sep).as_bytes()),
        2 => out.extend_from_slice(format!("{}p:x=\"1\"", sep).as_bytes()),
        _ => {}
    }
    match e.nil {
        1 => out.extend_from_slice(format!("{}xmlns:xsi=\"{}\"{}xsi:nil=\"true\"", sep, XSI, sep).as_bytes()),
        2 => out.extend_from_slice(format!("{}i:nil=\"1\"", sep).as_bytes()),
        // two prefixes bound to the XSI namespace are in scope; the attribute uses the one that was NOT declared last
        3 => out.extend_from_slice(format!("{}xmlns:xsi=\"{}\"{}i:nil=\"true\"", sep, XSI, sep).as_bytes()),
        _ => {}
    }
    if e.empty_form {
        out.extend_from_slice(b"/>");
        return;
    }
    out.push(b'>');
    if e.text {
        out.push(b't');
    }
    for c in &e.children {
        write_elem(c, sep, out);
    }
    out.extend_from_slice(b"</");
    out.extend_from_slice(e.name.as_bytes());
    out.push(b'>');
}

fn scope_of(e: &Elem, is_root: bool, root_binds_i: bool) -> Scope {
    let mut s: Scope = e.decls.iter().map(|&d| (DECLS[d].0.as_bytes().to_vec(), DECLS[d].1.as_bytes().to_vec())).collect();
    if e.nil == 1 || e.nil == 3 {
        s.push((b"xsi".to_vec(), XSI.as_bytes().to_vec()));
    }
    if is_root && root_binds_i {
        s.push((b"i".to_vec(), XSI.as_bytes().to_vec()));
    }
    s
}

/// Flattened expected event list with the scope chain that must be visible after each event.
#[derive(Clone, Debug)]
struct Step {
    kind: u8, // 1 Start, 2 Empty, 3 End, 4 Text
    name: &'static str,
    chain: Vec<Scope>,
    /// chain of the parent (what must be visible once the element is closed and another event was read)
    has_nil: bool,
    attr: u8,
    /// index of the matching End step for a Start
    end_idx: usize,
    /// index of the element this step belongs to (pre-order)
    depth: usize,
    /// Start step of the innermost element that is open after this step (None at top level)
    enclosing_after: Option<usize>,
}

fn flatten(e: &Elem, chain: &mut Vec<Scope>, is_root: bool, root_i: bool, expand: bool, out: &mut Vec<Step>) {
    chain.push(scope_of(e, is_root, root_i));
    let nil_true = match e.nil {
        1 => true,
        2 | 3 => resolve(chain, b"i:nil", true) == R::Bound(XSI.as_bytes().to_vec()),
        _ => false,
    };
    let depth = chain.len();
    if e.empty_form && !expand {
        out.push(Step { kind: 2, name: e.name, chain: chain.clone(), has_nil: nil_true, attr: e.attr, end_idx: 0, depth, enclosing_after: None });
    } else {
        let si = out.len();
        out.push(Step { kind: 1, name: e.name, chain: chain.clone(), has_nil: nil_true, attr: e.attr, end_idx: 0, depth, enclosing_after: None });
        if !e.empty_form {
            if e.text {
                out.push(Step { kind: 4, name: "", chain: chain.clone(), has_nil: false, attr: 0, end_idx: 0, depth, enclosing_after: None });
            }
            for c in &e.children {
                flatten(c, chain, false, root_i, expand, out);
            }
        }
        let ei = out.len();
        out.push(Step { kind: 3, name: e.name, chain: chain.clone(), has_nil: false, attr: 0, end_idx: 0, depth, enclosing_after: None });
        out[si].end_idx = ei;
    }
    chain.pop();
}

fn link_enclosing(steps: &mut [Step]) {
    let mut stack: Vec<usize> = Vec::new();
    for i in 0..steps.len() {
        match steps[i].kind {
            1 => stack.push(i),
            3 => {
                stack.pop();
            }
            _ => {}
        }
        steps[i].enclosing_after = stack.last().copied();
    }
}

// ------------------------------------------------------------------------------------------------
// Driving the real NsReader

#[derive(Clone, Copy, PartialEq, Eq, Debug)]
enum Choice {
    ReadEvent,
    ReadResolved,
    ReadToEnd,
    ReadText,
}

#[derive(Clone, Copy, PartialEq, Eq, Debug)]
enum SrcKind {
    Slice,
    Buf(usize),
    Async(usize),
}

struct Seen {
    kind: u8,
    name: Vec<u8>,
    resolved: Option<R>,
    own_elem: Option<R>,
    own_attr: Option<R>,
    has_nil: Option<bool>,
    state: NsState,
}

/// The name accessors split a qualified name at its colon: prefix() + ':' + local_name() == name.
fn name_parts_ok(q: QName) -> bool {
    let n = q.as_ref();
    let (want_prefix, want_local): (Option<&[u8]>, &[u8]) = match n.iter().position(|&b| b == b':') {
        Some(i) => (Some(&n[..i]), &n[i + 1..]),
        None => (None, n),
    };
    q.local_name().as_ref() == want_local && q.prefix().map(|p| p.as_ref().to_vec()) == want_prefix.map(|p| p.to_vec())
}

fn see_start<Rd>(r: &NsReader<Rd>, e: &BytesStart, attr: u8) -> (Option<R>, Option<R>, Option<bool>) {
    let mut own = R::of(&r.resolve_element(e.name()).0);
    // the event's own accessors (BytesStart::local_name, QName::local_name / prefix of the name and of every key)
    let local_ok = name_parts_ok(e.name()) && e.local_name().as_ref() == e.name().local_name().as_ref() && e.attributes().flatten().all(|a| name_parts_ok(a.key));
    if !local_ok {
        own = R::Unknown(b"<local_name()/prefix() of the event's name or of an attribute key do not split the name at its colon>".to_vec());
    }
    let mut own_attr = None;
    if attr != 0 {
        let want: &[u8] = if attr == 1 { b"x" } else { b"p:x" };
        for a in e.attributes().flatten() {
            if a.key.as_ref() == want {
                own_attr = Some(R::of(&r.resolve_attribute(a.key).0));
            }
        }
    }
    (Some(own), own_attr, Some(e.attributes().has_nil(r)))
}

fn seen_of<Rd>(r: &NsReader<Rd>, ev: &Event, resolved: Option<R>, attr: u8) -> Seen {
    let (kind, name, (own_elem, own_attr, has_nil)) = match ev {
        Event::Start(e) => (1, e.name().as_ref().to_vec(), see_start(r, e, attr)),
        Event::Empty(e) => (2, e.name().as_ref().to_vec(), see_start(r, e, attr)),
        Event::End(e) => (3, e.name().as_ref().to_vec(), (Some(R::of(&r.resolve_element(e.name()).0)), None, None)),
        Event::Text(_) => (4, Vec::new(), (None, None, None)),
        Event::Eof => (10, Vec::new(), (None, None, None)),
        _ => (99, Vec::new(), (None, None, None)),
    };
    Seen { kind, name, resolved, own_elem, own_attr, has_nil, state: observe(r) }
}

/// Runs one consumer history. `choices[k]` is what the consumer does at the k-th Start event it
/// sees (ReadEvent/ReadResolved decide how *all* following events up to the next Start are read).
/// Returns a description of the first disagreement with the model.
fn run_history(input: &[u8], steps: &[Step], expand: bool, src: SrcKind, choices: &[Choice], late_skip: Option<(usize, bool)>, nstarts_out: &mut usize) -> Result<u64, String> {
    let script = match src {
        SrcKind::Buf(p) | SrcKind::Async(p) => Script::pieces(p),
        SrcKind::Slice => Script::whole(),
    };
    let horizon = input.len() + 16;
    let r = guarded_mut(|| -> Result<u64, String> {
        let mut slice_reader = NsReader::from_reader(input);
        let mut io_reader = NsReader::from_reader(Source::new(input, &script));
        slice_reader.config_mut().expand_empty_elements = expand;
        io_reader.config_mut().expand_empty_elements = expand;
        let mut buf = Vec::new();
        let mut idx = 0usize; // next expected step
        let mut nstart = 0usize;
        let mut mode = Choice::ReadEvent;
        let mut calls = 0u64;
        // state that must be visible right now, and the alternative tolerated directly after a skip
        loop {
            if idx >= steps.len() {
                // after the last End: Eof, nothing bound any more
                let seen = match src {
                    SrcKind::Slice => { let ev = slice_reader.read_event().map_err(|e| format!("{:?}", e))?; seen_of(&slice_reader, &ev, None, 0) }
                    SrcKind::Buf(_) => { buf.clear(); let ev = io_reader.read_event_into(&mut buf).map_err(|e| format!("{:?}", e))?; seen_of(&io_reader, &ev, None, 0) }
                    SrcKind::Async(_) => { buf.clear(); let ev = block_on(io_reader.read_event_into_async(&mut buf), horizon).ok_or("stuck")?.map_err(|e| format!("{:?}", e))?; seen_of(&io_reader, &ev, None, 0) }
                };
                calls += 1;
                if seen.kind != 10 {
                    return Err(format!("expected Eof after the document, got event kind {}", seen.kind));
                }
                let want = model_state(&[]);
                if seen.state != want {
                    return Err(format!("at Eof the namespace state is {:?}, expected {:?}", seen.state, want));
                }
                break;
            }
            let step = &steps[idx];
            let resolved_mode = mode == Choice::ReadResolved;
            macro_rules! read {
                ($rd:ident, $plain:expr, $res:expr) => {{
                    if resolved_mode {
                        let (rr, ev) = $res.map_err(|e| format!("{:?}", e))?;
                        let rr = R::of(&rr);
                        seen_of(&$rd, &ev, Some(rr), step.attr)
                    } else {
                        let ev = $plain.map_err(|e| format!("{:?}", e))?;
                        seen_of(&$rd, &ev, None, step.attr)
                    }
                }};
            }
            let seen = match src {
                SrcKind::Slice => read!(slice_reader, slice_reader.read_event(), slice_reader.read_resolved_event()),
                SrcKind::Buf(_) => {
                    buf.clear();
                    read!(io_reader, io_reader.read_event_into(&mut buf), io_reader.read_resolved_event_into(&mut buf))
                }
                SrcKind::Async(_) => {
                    buf.clear();
                    if resolved_mode {
                        let (rr, ev) = block_on(io_reader.read_resolved_event_into_async(&mut buf), horizon).ok_or("stuck")?.map_err(|e| format!("{:?}", e))?;
                        let rr = R::of(&rr);
                        seen_of(&io_reader, &ev, Some(rr), step.attr)
                    } else {
                        let ev = block_on(io_reader.read_event_into_async(&mut buf), horizon).ok_or("stuck")?.map_err(|e| format!("{:?}", e))?;
                        seen_of(&io_reader, &ev, None, step.attr)
                    }
                }
            };
            calls += 1;
            let cur = idx;
            let ctx = |what: &str| format!("event #{} ({} {:?}): {}", cur, ["", "Start", "Empty", "End", "Text"][step.kind as usize], step.name, what);
            if seen.kind != step.kind || (step.kind != 4 && seen.name != step.name.as_bytes()) {
                return Err(ctx(&format!("reader returned event kind {} name {:?}", seen.kind, lossy(&seen.name))));
            }
            let want = model_state(&step.chain);
            if seen.state != want {
                return Err(ctx(&format!("namespace state after the call is {:?}, the scope chain gives {:?}", seen.state, want)));
            }
            if step.kind != 4 {
                let want_own = resolve(&step.chain, step.name.as_bytes(), false);
                if seen.own_elem.as_ref() != Some(&want_own) {
                    return Err(ctx(&format!("resolve_element(own name) = {:?}, expected {:?}", seen.own_elem, want_own)));
                }
                if let Some(rr) = &seen.resolved {
                    if *rr != want_own {
                        return Err(ctx(&format!("read_resolved_event returned {:?}, expected {:?}", rr, want_own)));
                    }
                }
            } else if let Some(rr) = &seen.resolved {
                if *rr != R::Unbound {
                    return Err(ctx(&format!("read_resolved_event returned {:?} for a text event", rr)));
                }
            }
            if step.kind == 1 || step.kind == 2 {
                if step.attr != 0 {
                    let an: &[u8] = if step.attr == 1 { b"x" } else { b"p:x" };
                    let want_a = resolve(&step.chain, an, true);
                    if seen.own_attr.as_ref() != Some(&want_a) {
                        return Err(ctx(&format!("resolve_attribute({:?}) = {:?}, expected {:?}", lossy(an), seen.own_attr, want_a)));
                    }
                }
                if seen.has_nil != Some(step.has_nil) {
                    return Err(ctx(&format!("has_nil = {:?}, expected {}", seen.has_nil, step.has_nil)));
                }
            }
            idx += 1;
            // what to skip now: the element just opened (ordinary skip), or — at most once per history —
            // the rest of the innermost element that is still open after this event
            let mut skip: Option<(usize, Choice)> = None;
            if step.kind == 1 {
                let choice = choices.get(nstart).copied().unwrap_or(Choice::ReadEvent);
                nstart += 1;
                match choice {
                    Choice::ReadEvent | Choice::ReadResolved => mode = choice,
                    Choice::ReadToEnd | Choice::ReadText => skip = Some((cur, choice)),
                }
            }
            // the late skip uses read_to_end or (slice source) read_text
            let late_choice = if late_skip.map_or(false, |l| l.1) { Choice::ReadText } else { Choice::ReadToEnd };
            let late_skip = late_skip.map(|l| l.0);
            if skip.is_none() && late_skip == Some(cur) {
                if let Some(enc) = step.enclosing_after {
                    skip = Some((enc, late_choice));
                }
            }
            let mut pending = skip;
            let mut second = false;
            while let Some((start_idx, choice)) = pending.take() {
                let target = &steps[start_idx];
                let name = target.name.as_bytes();
                let res: Result<(), String> = match (src, choice) {
                    (SrcKind::Slice, Choice::ReadText) => slice_reader.read_text(QName(name)).map(|_| ()).map_err(|e| format!("{:?}", e)),
                    (SrcKind::Slice, _) => slice_reader.read_to_end(QName(name)).map(|_| ()).map_err(|e| format!("{:?}", e)),
                    (SrcKind::Buf(_), _) => { buf.clear(); io_reader.read_to_end_into(QName(name), &mut buf).map(|_| ()).map_err(|e| format!("{:?}", e)) }
                    (SrcKind::Async(_), _) => { buf.clear(); block_on(io_reader.read_to_end_into_async(QName(name), &mut buf), 4 * horizon).ok_or("stuck")?.map(|_| ()).map_err(|e| format!("{:?}", e)) }
                };
                calls += 1;
                res.map_err(|e| ctx(&format!("skipping element {:?} failed: {}", target.name, e)))?;
                // the element has ended: directly after the call either its own scope (as after an
                // End event, "until the next read") or already its parent's scope may be visible
                let now = match src {
                    SrcKind::Slice => observe(&slice_reader),
                    _ => observe(&io_reader),
                };
                let own = model_state(&target.chain);
                let parent = model_state(&target.chain[..target.chain.len() - 1]);
                if now != own && now != parent {
                    return Err(ctx(&format!("after skipping element {:?} the namespace state is {:?}; neither the element's scope {:?} nor its parent's {:?}", target.name, now, own, parent)));
                }
                idx = target.end_idx + 1;
                // two skips in a row: the element just skipped, then the rest of its parent
                if !second && late_skip == Some(cur) && start_idx == cur {
                    if let Some(enc) = steps[target.end_idx].enclosing_after {
                        pending = Some((enc, late_choice));
                        second = true;
                    }
                }
            }
        }
        *nstarts_out = nstart;
        Ok(calls)
    });
    match r {
        Ok(x) => x,
        Err(p) => Err(format!("panic: {}", p)),
    }
}

fn all_choices(has_text_api: bool) -> Vec<Choice> {
    let mut v = vec![Choice::ReadEvent, Choice::ReadResolved, Choice::ReadToEnd];
    if has_text_api {
        v.push(Choice::ReadText);
    }
    v
}

/// Walks every consumer history of a document for one source kind.
fn walk(acc: &mut Acc, order: (u32, u64), input: &[u8], steps: &[Step], expand: bool, src: SrcKind, known: &Known, doc_json: &dyn Fn() -> Value) {
    let opts = all_choices(src == SrcKind::Slice);
    // (history prefix, number of Start events of the run if already known). A prefix extended by the
    // default choice `ReadEvent` is the same execution as the prefix itself, so it is not run again.
    let mut stack: Vec<(Vec<Choice>, Option<usize>)> = vec![(vec![], None)];
    while let Some((prefix, known_starts)) = stack.pop() {
        let mut nstarts = 0;
        let outcome = match known_starts {
            Some(n) => {
                nstarts = n;
                Ok(0)
            }
            None => {
                acc.evaluations += 1;
                run_history(input, steps, expand, src, &prefix, None, &mut nstarts)
            }
        };
        match outcome {
            Ok(calls) => {
                if known_starts.is_none() {
                    acc.transitions += calls;
                    acc.traces += 1;
                    if prefix.iter().any(|c| matches!(c, Choice::ReadToEnd | Choice::ReadText)) {
                        acc.nt_count += 1;
                    }
                }
                // late skips: on histories that only read (fully decided ones), skip the rest of the
                // innermost open element after every single event
                if known_starts.is_none() && prefix.len() >= nstarts {
                    let has_skip = prefix.iter().any(|c| matches!(c, Choice::ReadToEnd | Choice::ReadText));
                    for p in 0..steps.len() {
                        // read-only histories: after every child event (after a Start it would be the ordinary
                        // skip explored above); histories with skips: at the Start steps, where a skipped
                        // element is followed at once by the skip of the rest of its parent
                        let useful = if has_skip { steps[p].kind == 1 && steps[steps[p].end_idx].enclosing_after.is_some() } else { steps[p].kind != 1 && steps[p].enclosing_after.is_some() };
                        if !useful {
                            continue;
                        }
                        for late_text in [false, true] {
                            if late_text && !matches!(src, SrcKind::Slice) {
                                continue;
                            }
                            let mut n2 = 0;
                            acc.evaluations += 1;
                            match run_history(input, steps, expand, src, &prefix, Some((p, late_text)), &mut n2) {
                                Ok(calls) => {
                                    acc.transitions += calls;
                                    acc.traces += 1;
                                    acc.nt_count += 1;
                                    acc.count("late_skip_histories", 1);
                                }
                                Err(what) => acc.violation(
                                    order,
                                    format!("document {:?} expand_empty={} source {:?} history {:?} + {} of the enclosing element after event #{}: {}", lossy(input), expand, src, prefix, if late_text { "read_text" } else { "read_to_end" }, p, what),
                                    json!({"doc": doc_json(), "input": bytes_json(input), "expand": expand, "source": format!("{:?}", src), "history": prefix.iter().map(|c| format!("{:?}", c)).collect::<Vec<_>>(), "late_skip": p, "late_text": late_text}),
                                ),
                            }
                        }
                    }
                }
                if prefix.len() < nstarts {
                    for &c in &opts {
                        let mut p = prefix.clone();
                        p.push(c);
                        stack.push((p, if c == Choice::ReadEvent { Some(nstarts) } else { None }));
                    }
                }
            }
            Err(what) => {
                let skipped = prefix.iter().any(|c| matches!(c, Choice::ReadToEnd | Choice::ReadText));
                let _ = (skipped, known);
                {
                    acc.violation(
                        order,
                        format!("document {:?} expand_empty={} source {:?} history {:?}: {}", lossy(input), expand, src, prefix, what),
                        json!({"doc": doc_json(), "input": bytes_json(input), "expand": expand, "source": format!("{:?}", src), "history": prefix.iter().map(|c| format!("{:?}", c)).collect::<Vec<_>>()}),
                    );
                }
            }
        }
    }
}

struct Family {
    /// declaration sets for r and c
    sets: Vec<Vec<usize>>,
    /// declaration sets for g and c2
    small_sets: Vec<Vec<usize>>,
}

/// Decodes document number `i` of the family; returns None when the index is outside.
fn build_doc(f: &Family, mut i: u64, thorough: bool) -> Option<Elem> {
    // shape: r( c( g? ) , c2? )
    let mut take = |n: u64| {
        let x = i % n;
        i /= n;
        x as usize
    };
    let shape = take(4); // 0: r(c)  1: r(c(g))  2: r(c,c2)  3: r(c(g),c2)
    let _ = thorough;
    let sets_r = &f.sets;
    let rd = sets_r[take(sets_r.len() as u64)].clone();
    let cd = sets_r[take(sets_r.len() as u64)].clone();
    let gd = f.small_sets[take(f.small_sets.len() as u64)].clone();
    let c2d = f.small_sets[take(f.small_sets.len() as u64)].clone();
    let g_name = ["p:a", "a"][take(2)];
    let c_attr = take(3) as u8;
    let nil = take(4) as u8; // 0 none, 1 xsi:nil on the innermost of c's subtree, 2 i:nil (i bound on root) on it, 3 i:nil with xsi declared in place as well
    let leaf_form = take(3); // 0 <e/>, 1 <e></e>, 2 <e>t</e>
    let c_xml = take(2) == 1;
    if i != 0 {
        return None;
    }
    if nil == 3 && (c_attr != 0 || c_xml || leaf_form == 2) {
        return None; // the two-XSI-prefixes variant is combined with one representative of the other dimensions
    }
    if c_xml && (nil != 0 || leaf_form != 1 || c_attr != 0) {
        return None; // the redundant xmlns:xml declaration is combined with one representative of the other dimensions
    }
    let has_g = shape == 1 || shape == 3;
    let has_c2 = shape >= 2;
    let leaf = |name: &'static str, decls: Vec<usize>, attr: u8, nil: u8| Elem {
        name,
        decls,
        attr,
        nil,
        text: leaf_form == 2,
        empty_form: leaf_form == 0,
        children: vec![],
        xml_decl: false,
    };
    let c = if has_g {
        Elem { name: "p:a", decls: cd, attr: c_attr, nil: 0, text: false, empty_form: false, children: vec![leaf(g_name, gd, 0, nil)], xml_decl: c_xml }
    } else {
        if !gd.is_empty() || g_name != "p:a" {
            return None; // unused dimensions: keep one representative
        }
        let mut l = leaf("p:a", cd, c_attr, nil);
        l.xml_decl = c_xml;
        l
    };
    let mut children = vec![c];
    if has_c2 {
        children.push(Elem { name: "q:a", decls: c2d, attr: 2, nil: 0, text: false, empty_form: true, children: vec![], xml_decl: false });
    } else if !c2d.is_empty() {
        return None;
    }
    Some(Elem { name: "r", decls: rd, attr: 0, nil: 0, text: false, empty_form: false, children, xml_decl: false })
}

fn family_size(f: &Family, _thorough: bool) -> u64 {
    let s = f.sets.len() as u64;
    let m = f.small_sets.len() as u64;
    4 * s * s * m * m * 2 * 3 * 4 * 3 * 2
}

pub fn run(ctx: &Ctx) {
    ctx.set_rule(
        "documents: root r with child c = p:a, optional grandchild g (p:a or a: same-name nesting), optional sibling c2 = q:a; \
         r and c carry every declaration set (quick: size <=1, thorough: size <=2; thorough g/c2: size <=1, quick g/c2: {none, xmlns:p=u2, xmlns=''}) out of {xmlns=u1, xmlns='', xmlns:p=u1, \
         xmlns:p=u2, xmlns:p='', xmlns:q=u1}, g and c2 every set of size <=1; c optionally has attribute x or p:x; c optionally starts with a legal redundant xmlns:xml declaration; the innermost \
         element optionally has xsi:nil (xsi declared in place, or prefix i bound on the root); leaves written <e/>, <e></e> or \
         <e>t</e>. For every document x expand_empty_elements on/off x source (slice; buffered pieces 1 and whole; async pieces 1) \
         EVERY consumer history is walked: at each Start the consumer picks read_event / read_resolved_event (mode for the \
         following events) / read_to_end / read_text (slice only); and, on histories that only read, additionally skips (read_to_end, and read_text on the slice source) the REST of the innermost open \
         element after every single child event (End / Empty / Text), and histories with skips additionally skip the rest of the parent \
         immediately after a skipped element (two skips in a row). After every call the observable namespace state \
         (resolve_element and resolve_attribute of six probe names n, p:n, q:n, xml:n, xmlns:n, z:n; prefixes() as a map; the \
         event's own name and attribute; the ResolveResult of read_resolved_event; has_nil) is compared with a scope chain computed \
         from the document tree. Directly after a skip both the element's own scope and its parent's are accepted; from the next \
         event on the scope is strict. evaluations = histories; non-trivial = history with at least one skip; distinct by \
         construction. states = distinct namespace states observed",
    );
    ctx.assume("documents are well-formed by construction; error paths of NsReader are exercised by C03");
    let t = ctx.tier;
    let full = cfg!(feature = "full");
    let thorough = t == Tier::Thorough && full;
    let fam = family(t, full);
    let total = family_size(&fam, thorough);
    let known = Known::load();
    let seed = ctx.seed;
    let srcs: Vec<SrcKind> = if full { vec![SrcKind::Slice, SrcKind::Buf(1), SrcKind::Buf(0), SrcKind::Async(1)] } else { vec![SrcKind::Slice, SrcKind::Buf(1)] };
    // presentation of the attribute area: tab / line feed / CR LF TAB / two blanks in front of every
    // attribute and declaration (fixed histories: plain, resolved, one skip at each Start)
    let pres_srcs: Vec<SrcKind> = if full { vec![SrcKind::Slice, SrcKind::Buf(1)] } else { vec![SrcKind::Slice] };
    ctx.layer("presentation.separators", 1, total * 4, json!({"separators": &SEPS[1..], "histories": "plain; resolved; read_to_end at the k-th Start after k resolved reads", "sources": pres_srcs.iter().map(|s| format!("{:?}", s)).collect::<Vec<_>>()}), |j, acc| {
        let i = j / 4;
        let sep = SEPS[1 + (j % 4) as usize];
        let Some(doc) = build_doc(&fam, i, thorough) else { return };
        let root_i = doc_uses_i(&doc);
        let mut input = Vec::new();
        write_doc_sep(&doc, root_i, sep, &mut input);
        for expand in [false, true] {
            let mut steps = Vec::new();
            flatten(&doc, &mut Vec::new(), true, root_i, expand, &mut steps);
            link_enclosing(&mut steps);
            let nstarts = steps.iter().filter(|s| s.kind == 1).count();
            for &src in &pres_srcs {
                for h in fixed_histories(nstarts) {
                    let mut n = 0;
                    acc.evaluations += 1;
                    match run_history(&input, &steps, expand, src, &h, None, &mut n) {
                        Ok(calls) => {
                            acc.transitions += calls;
                            acc.traces += 1;
                            acc.nt_count += 1;
                        }
                        Err(what) => acc.violation(
                            (1, j),
                            format!("document {:?} expand_empty={} source {:?} history {:?}: {}", lossy(&input), expand, src, h, what),
                            json!({"doc": i, "sep": 1 + (j % 4), "input": bytes_json(&input), "expand": expand, "source": format!("{:?}", src), "history": h.iter().map(|c| format!("{:?}", c)).collect::<Vec<_>>()}),
                        ),
                    }
                }
            }
        }
    });

    // depth and count thresholds of the resolver (bindings carry their nesting level; one shared
    // buffer holds all prefixes and URIs): representative documents of the family inside `depth`
    // wrapper elements; plain wrappers up to 65 538 deep, declaring wrappers (one new prefix per
    // level, so `depth` bindings are alive) up to 300
    if full {
    let reps: Vec<u64> = {
        let mut v = Vec::new();
        let mut i = 0u64;
        // documents of shape r(c(g), c2) whose r, c and g all declare something, one per 97 indices
        while i < total && v.len() < t.pick(6, 24) {
            if let Some(d) = build_doc(&fam, i, thorough) {
                let c = &d.children[0];
                if d.children.len() == 2 && !d.decls.is_empty() && !c.decls.is_empty() && c.children.first().map_or(false, |g| !g.decls.is_empty()) {
                    v.push(i);
                    i += 96;
                }
            }
            i += 1;
        }
        v
    };
    let mut depths: Vec<(usize, bool)> = Vec::new();
    for d in crate::inputs::size_list(t.pick(20, 70), t.pick(16, 17)) {
        if d == 0 {
            continue;
        }
        depths.push((d as usize, false));
        if d <= t.pick(300, 1100) {
            depths.push((d as usize, true));
        }
    }
    let nd = depths.len() as u64;
    let deep_srcs: Vec<SrcKind> = if full { vec![SrcKind::Slice, SrcKind::Buf(0), SrcKind::Buf(7)] } else { vec![SrcKind::Slice] };
    ctx.layer("depth.wrapped", 2, reps.len() as u64 * nd, json!({"documents": reps, "depths": format!("{} (plain wrappers) / subset <= {} (declaring wrappers)", "1..=dense and 2^j-2..2^j+2 up to 2^16 or 2^17", t.pick(300, 1100)), "histories": "plain; resolved; read_to_end of the innermost wrapper, of the outermost wrapper, of the document root, of its first child"}), |j, acc| {
        let (depth, declaring) = depths[(j % nd) as usize];
        let i = reps[(j / nd) as usize];
        let Some(doc) = build_doc(&fam, i, thorough) else { return };
        let root_i = doc_uses_i(&doc);
        let mut input = Vec::new();
        let mut steps = Vec::new();
        for expand in [false, true] {
            if expand && depth > 300 {
                continue;
            }
            wrap(&doc, root_i, expand, depth, declaring, &mut input, &mut steps);
            let lead = |n: usize, last: Choice| {
                let mut h = vec![Choice::ReadEvent; n];
                h.push(last);
                h
            };
            let hists: Vec<Vec<Choice>> = vec![
                vec![],
                vec![Choice::ReadResolved],
                lead(depth - 1, Choice::ReadToEnd),
                vec![Choice::ReadToEnd],
                lead(depth, Choice::ReadToEnd),
                lead(depth + 1, Choice::ReadToEnd),
            ];
            for &src in &deep_srcs {
                if depth > 5000 && src != SrcKind::Slice && src != SrcKind::Buf(0) {
                    continue;
                }
                for (hi, h) in hists.iter().enumerate() {
                    let mut n = 0;
                    acc.evaluations += 1;
                    match run_history(&input, &steps, expand, src, h, None, &mut n) {
                        Ok(calls) => {
                            acc.transitions += calls;
                            acc.traces += 1;
                            acc.nt_count += 1;
                        }
                        Err(what) => acc.violation(
                            (2, j),
                            format!("document {:?} inside {} {} wrapper elements <w>, expand_empty={} source {:?} history #{} ({}): {}", head(&input[if declaring { 0 } else { 3 * depth }..]), depth, if declaring { "declaring" } else { "plain" }, expand, src, hi, ["plain reads", "resolved reads", "read_to_end at the innermost wrapper", "read_to_end at the outermost wrapper", "read_to_end at the document root", "read_to_end at the first child"][hi], head(what.as_bytes())),
                            json!({"doc": i, "wrap": {"depth": depth, "declaring": declaring}, "expand": expand, "source": format!("{:?}", src), "lead": h.len().saturating_sub(1), "history": h.last().map(|c| format!("{:?}", c))}),
                        ),
                    }
                }
            }
        }
    });
    }
    ctx.layer("documents_x_histories", 0, total, json!({"declaration_atoms": DECLS.iter().map(|d| format!("{}={}", d.0, d.1)).collect::<Vec<_>>(), "sources": srcs.iter().map(|s| format!("{:?}", s)).collect::<Vec<_>>()}), |i, acc| {
        let Some(doc) = build_doc(&fam, i, thorough) else { return };
        let root_i = doc_uses_i(&doc);
        let mut input = Vec::new();
        write_doc(&doc, root_i, &mut input);
        acc.count("documents", 1);
        for expand in [false, true] {
            let mut steps = Vec::new();
            flatten(&doc, &mut Vec::new(), true, root_i, expand, &mut steps);
            link_enclosing(&mut steps);
            for s in &steps {
                acc.state(h64(&model_state(&s.chain)));
            }
            for &src in &srcs {
                walk(acc, (0, i), &input, &steps, expand, src, &known, &|| json!(i));
            }
        }
        acc.sample(seed, i, || json!({"document": lossy(&input)}));
    });

}

fn family(t: Tier, full: bool) -> Family {
    // g / c2 in the quick tier: nothing, re-declaration of p, un-declaration of the default namespace
    let reduced = vec![vec![], vec![3], vec![1]];
    match (t, full) {
        (Tier::Thorough, true) => Family { sets: decl_sets(2), small_sets: decl_sets(1) },
        (Tier::Thorough, false) => Family { sets: decl_sets(1), small_sets: reduced },
        (Tier::Quick, true) => Family { sets: decl_sets(1), small_sets: reduced },
        (Tier::Quick, false) => Family { sets: vec![vec![], vec![0], vec![2], vec![4]], small_sets: reduced },
    }
}

fn doc_uses_i(e: &Elem) -> bool {
    e.nil == 2 || e.nil == 3 || e.children.iter().any(doc_uses_i)
}

fn write_doc(doc: &Elem, root_i: bool, out: &mut Vec<u8>) {
    write_doc_sep(doc, root_i, " ", out)
}

fn write_doc_sep(doc: &Elem, root_i: bool, sep: &str, out: &mut Vec<u8>) {
    if !root_i {
        write_elem(doc, sep, out);
        return;
    }
    // bind prefix i to the XSI namespace on the root
    let mut tmp = Vec::new();
    write_elem(doc, sep, &mut tmp);
    // insert after "<r"
    out.extend_from_slice(&tmp[..2]);
    out.extend_from_slice(format!("{}xmlns:i=\"{}\"", sep, XSI).as_bytes());
    out.extend_from_slice(&tmp[2..]);
}

fn head(b: &[u8]) -> String {
    if b.len() <= 400 {
        lossy(b)
    } else {
        format!("{}...({} bytes)", lossy(&b[..160]), b.len())
    }
}

/// The fixed histories of the presentation and depth layers: `lead` Start events read plainly, then `then`.
fn fixed_histories(inner_starts: usize) -> Vec<Vec<Choice>> {
    let mut v = vec![vec![], vec![Choice::ReadResolved]];
    for k in 0..inner_starts {
        let mut h = vec![Choice::ReadResolved; k];
        h.push(Choice::ReadToEnd);
        v.push(h);
    }
    v
}

/// Wraps a document in `depth` elements `w` (declaring: wrapper k declares prefix w<k>), giving input and steps.
fn wrap(doc: &Elem, root_i: bool, expand: bool, depth: usize, declaring: bool, input: &mut Vec<u8>, steps: &mut Vec<Step>) {
    input.clear();
    steps.clear();
    let mut chain: Vec<Scope> = Vec::new();
    for k in 0..depth {
        if declaring {
            input.extend_from_slice(format!("<w xmlns:w{}='n{}'>", k, k).as_bytes());
            chain.push(vec![(format!("w{}", k).into_bytes(), format!("n{}", k).into_bytes())]);
        } else {
            input.extend_from_slice(b"<w>");
            // an empty scope does not change what is visible: the chain of a plain wrapper is one empty scope
            chain = vec![vec![]];
        }
        steps.push(Step { kind: 1, name: "w", chain: chain.clone(), has_nil: false, attr: 0, end_idx: 0, depth: k + 1, enclosing_after: None });
    }
    let base = if declaring { chain.clone() } else { Vec::new() };
    let mut inner = Vec::new();
    flatten(doc, &mut base.clone(), true, root_i, expand, &mut inner);
    let off = steps.len();
    for mut st in inner {
        st.end_idx += off;
        steps.push(st);
    }
    let mut body = Vec::new();
    write_doc(doc, root_i, &mut body);
    input.extend_from_slice(&body);
    for k in (0..depth).rev() {
        input.extend_from_slice(b"</w>");
        let ch = if declaring { chain[..k + 1].to_vec() } else { vec![vec![]] };
        let ei = steps.len();
        steps.push(Step { kind: 3, name: "w", chain: ch, has_nil: false, attr: 0, end_idx: 0, depth: k + 1, enclosing_after: None });
        steps[k].end_idx = ei;
    }
    link_enclosing(steps);
}

pub fn replay(case: &Value) -> Result<(), String> {
    let i = case["doc"].as_u64().ok_or("no doc index")?;
    if let Some(w) = case.get("wrap") {
        let depth = w["depth"].as_u64().unwrap_or(1) as usize;
        let declaring = w["declaring"].as_bool().unwrap_or(false);
        let expand = case["expand"].as_bool().unwrap_or(false);
        let src = match case["source"].as_str().unwrap_or("Slice") {
            "Slice" => SrcKind::Slice,
            "Buf(0)" => SrcKind::Buf(0),
            _ => SrcKind::Buf(7),
        };
        let mut h = vec![Choice::ReadEvent; case["lead"].as_u64().unwrap_or(0) as usize];
        match case["history"].as_str() {
            Some("ReadResolved") => h.push(Choice::ReadResolved),
            Some("ReadToEnd") => h.push(Choice::ReadToEnd),
            _ => {}
        }
        for (t, full) in [(Tier::Quick, true), (Tier::Quick, false), (Tier::Thorough, true), (Tier::Thorough, false)] {
            let fam = family(t, full);
            if let Some(doc) = build_doc(&fam, i, false) {
                let root_i = doc_uses_i(&doc);
                let mut input = Vec::new();
                let mut steps = Vec::new();
                wrap(&doc, root_i, expand, depth, declaring, &mut input, &mut steps);
                println!("family ({:?}, full={}): document {:?} inside {} wrappers (declaring={}) expand={} source {:?}", t, full, head(&input[if declaring { 0 } else { 3 * depth }..]), depth, declaring, expand, src);
                let mut n = 0;
                if let Err(e) = run_history(&input, &steps, expand, src, &h, None, &mut n) {
                    return Err(head(e.as_bytes()));
                }
            }
        }
        return Ok(());
    }
    let sep = SEPS[case.get("sep").and_then(|s| s.as_u64()).unwrap_or(0) as usize];
    let recorded = bytes_from_json(&case["input"]);
    let mut found = None;
    for (t, full) in [(Tier::Quick, true), (Tier::Quick, false), (Tier::Thorough, true), (Tier::Thorough, false)] {
        let fam = family(t, full);
        let thorough = false;
        if let Some(doc) = build_doc(&fam, i, thorough) {
            let root_i = doc_uses_i(&doc);
            let mut input = Vec::new();
            write_doc_sep(&doc, root_i, sep, &mut input);
            if input == recorded {
                found = Some((doc, root_i, input));
                break;
            }
        }
    }
    let (doc, root_i, input) = found.ok_or("cannot rebuild the document")?;
    let expand = case["expand"].as_bool().unwrap_or(false);
    let src = match case["source"].as_str().unwrap_or("Slice") {
        "Slice" => SrcKind::Slice,
        "Buf(1)" => SrcKind::Buf(1),
        "Buf(0)" => SrcKind::Buf(0),
        _ => SrcKind::Async(1),
    };
    let hist: Vec<Choice> = case["history"].as_array().map(|a| a.iter().map(|c| match c.as_str().unwrap() {
        "ReadResolved" => Choice::ReadResolved,
        "ReadToEnd" => Choice::ReadToEnd,
        "ReadText" => Choice::ReadText,
        _ => Choice::ReadEvent,
    }).collect()).unwrap_or_default();
    let mut steps = Vec::new();
    flatten(&doc, &mut Vec::new(), true, root_i, expand, &mut steps);
    link_enclosing(&mut steps);
    let late = case.get("late_skip").and_then(|l| l.as_u64()).map(|l| (l as usize, case.get("late_text").and_then(|t| t.as_bool()).unwrap_or(false)));
    println!("document {:?} expand={} source {:?} history {:?} late skip after event {:?}", lossy(&input), expand, src, hist, late);
    let mut n = 0;
    run_history(&input, &steps, expand, src, &hist, late, &mut n).map(|_| ())
}
