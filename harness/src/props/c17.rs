//! C17 — Declared or detected encodings decode to the same content as UTF-8 (`full` build).

use crate::common::*;
use crate::env::{Script, Source};
use encoding_rs::Encoding;
use quick_xml::events::Event;
use quick_xml::reader::Reader;
use serde_json::{json, Value};

const LABELS: [&str; 40] = [
    "Big5", "EUC-JP", "EUC-KR", "GBK", "IBM866", "ISO-2022-JP", "ISO-8859-10", "ISO-8859-13", "ISO-8859-14", "ISO-8859-15", "ISO-8859-16",
    "ISO-8859-2", "ISO-8859-3", "ISO-8859-4", "ISO-8859-5", "ISO-8859-6", "ISO-8859-7", "ISO-8859-8", "ISO-8859-8-I", "KOI8-R", "KOI8-U",
    "Shift_JIS", "UTF-16BE", "UTF-16LE", "UTF-8", "gb18030", "macintosh", "replacement", "windows-1250", "windows-1251", "windows-1252",
    "windows-1253", "windows-1254", "windows-1255", "windows-1256", "windows-1257", "windows-1258", "windows-874", "x-mac-cyrillic",
    "x-user-defined",
];

pub fn encodings() -> Vec<&'static Encoding> {
    let mut v: Vec<&'static Encoding> = Vec::new();
    for l in LABELS {
        if let Some(e) = Encoding::for_label(l.as_bytes()) {
            if e.is_ascii_compatible() && !v.contains(&e) {
                v.push(e);
            }
        }
    }
    v
}

const STRUCTURAL: &[u8] = b"<>&'\"/=?!-[] \t\r\n";

/// Every 1- and 2-byte high sequence (plus gb18030 four-byte range boundaries) that decodes
/// without error to exactly one character and re-encodes to itself.
pub fn alphabet(enc: &'static Encoding) -> Vec<(Vec<u8>, char)> {
    let mut out = Vec::new();
    let mut try_seq = |seq: &[u8]| {
        if let Some(s) = enc.decode_without_bom_handling_and_without_replacement(seq) {
            let mut it = s.chars();
            if let (Some(c), None) = (it.next(), it.next()) {
                let (back, _, unmappable) = enc.encode(&s);
                if !unmappable && &back[..] == seq && (c as u32) >= 0x80 {
                    out.push((seq.to_vec(), c));
                }
            }
        }
    };
    if enc == encoding_rs::UTF_8 {
        for c in ['é', 'я', '€', '日', '\u{10348}', '\u{FFFD}', '\u{80}', '\u{7FF}', '\u{800}', '\u{FFFF}', '\u{10FFFF}', '\u{FEFF}', '\u{FFFE}', '\u{85}', '\u{2028}'] {
            let mut b = [0u8; 4];
            try_seq(c.encode_utf8(&mut b).as_bytes());
        }
        return out;
    }
    for b in 0x80..=0xFFu8 {
        try_seq(&[b]);
    }
    for lead in 0x81..=0xFEu8 {
        for trail in 0x30..=0xFFu8 {
            try_seq(&[lead, trail]);
        }
    }
    if enc == encoding_rs::GB18030 {
        for seq in [[0x81u8, 0x30, 0x81, 0x30], [0x81, 0x30, 0x81, 0x39], [0x84, 0x31, 0xA4, 0x39], [0x90, 0x30, 0x81, 0x30], [0xE3, 0x32, 0x9A, 0x35], [0x82, 0x35, 0x8F, 0x33]] {
            try_seq(&seq);
        }
    }
    out
}

#[derive(Clone, Copy, PartialEq, Eq, Debug)]
enum Src {
    Slice,
    Buf(usize),
}

/// Payload strings observed while reading (decoded with the reader's decoder).
#[derive(Debug, PartialEq, Clone)]
struct Seen {
    kinds: Vec<u8>,
    strings: Vec<String>,
    encodings: Vec<&'static str>,
}

fn read_doc(bytes: &[u8], src: Src, from_str: Option<&str>) -> Result<Seen, String> {
    let script = match src {
        Src::Buf(p) => Script::pieces(p),
        Src::Slice => Script::whole(),
    };
    guarded_mut(|| -> Result<Seen, String> {
        let mut seen = Seen { kinds: vec![], strings: vec![], encodings: vec![] };
        macro_rules! pump {
            ($reader:ident, $read:expr) => {{
                for _ in 0..bytes.len() + 8 {
                    let ev = $read.map_err(|e| format!("reader error {:?}", e))?;
                    let dec = $reader.decoder();
                    seen.encodings.push(dec.encoding().name());
                    let d = |b: &[u8]| {
                        let one = dec.decode(b).map(|c| c.into_owned()).map_err(|e| format!("decoding error {:?}", e));
                        // the two decoding entry points must agree
                        let mut buf = String::from("#");
                        let two = dec.decode_into(b, &mut buf).map(|_| buf[1..].to_string()).map_err(|e| format!("decoding error {:?}", e));
                        match (&one, &two) {
                            (Ok(a), Ok(b)) if a == b => {}
                            (Err(_), Err(_)) => {}
                            _ => return Err(format!("DISAGREE: decode() gives {:?} but decode_into() gives {:?} for bytes {:02x?}", one, two, b)),
                        }
                        one
                    };
                    // a byte-order mark that leaked would lead the first event (U+FEFF later in the document is an ordinary character)
                    if seen.kinds.is_empty() && bytes.starts_with(&[0xEF, 0xBB, 0xBF]) && ev.starts_with(&[0xEF, 0xBB, 0xBF]) && !bytes[3..].starts_with(&[0xEF, 0xBB, 0xBF]) {
                        return Err("a byte-order mark appears in an event".into());
                    }
                    match &ev {
                        Event::Eof => break,
                        Event::Start(e) | Event::Empty(e) => {
                            seen.kinds.push(if matches!(ev, Event::Start(_)) { 1 } else { 2 });
                            seen.strings.push(d(e.name().as_ref())?);
                            for a in e.attributes() {
                                let a = a.map_err(|e| format!("attribute error {:?}", e))?;
                                seen.strings.push(d(a.key.as_ref())?);
                                d(&a.value)?;
                                seen.strings.push(a.decode_and_unescape_value(dec).map_err(|e| format!("attribute value: {:?}", e))?.into_owned());
                            }
                        }
                        Event::End(e) => {
                            seen.kinds.push(3);
                            seen.strings.push(d(e.name().as_ref())?);
                        }
                        Event::Text(t) => {
                            seen.kinds.push(4);
                            d(t)?;
                            let borrowed = t.unescape().map_err(|e| format!("text: {:?}", e))?.into_owned();
                            // the detached copy of the event must decode the same way
                            let detached = t.clone().into_owned().unescape().map(|c| c.into_owned()).map_err(|e| format!("{:?}", e));
                            if detached.as_ref() != Ok(&borrowed) {
                                return Err(format!("DISAGREE: BytesText::into_owned().unescape() gives {:?}, the borrowed event {:?}", detached, borrowed));
                            }
                            seen.strings.push(borrowed);
                        }
                        Event::CData(t) => {
                            seen.kinds.push(5);
                            let content = d(t)?;
                            // sibling accessors: CDATA converted into escaped text must unescape to the same string
                            for (name, conv) in [("escape", t.clone().escape()), ("partial_escape", t.clone().partial_escape()), ("minimal_escape", t.clone().minimal_escape())] {
                                let text = conv.map_err(|e| format!("BytesCData::{}: {:?}", name, e))?;
                                let back = text.unescape().map_err(|e| format!("DISAGREE: BytesCData::{}().unescape() fails with {:?} although the content decodes to {:?}", name, e, content))?;
                                if back != content {
                                    return Err(format!("DISAGREE: BytesCData::{}().unescape() gives {:?}, the content decodes to {:?}", name, back, content));
                                }
                            }
                            seen.strings.push(content);
                        }
                        Event::Comment(t) => {
                            seen.kinds.push(6);
                            seen.strings.push(d(t)?);
                        }
                        Event::Decl(t) => {
                            seen.kinds.push(7);
                            seen.strings.push(d(t)?);
                        }
                        Event::PI(t) => {
                            seen.kinds.push(8);
                            seen.strings.push(d(t)?);
                        }
                        Event::DocType(t) => {
                            seen.kinds.push(9);
                            seen.strings.push(d(t)?);
                        }
                    }
                }
            }};
        }
        match (from_str, src) {
            (Some(s), _) => {
                let mut reader = Reader::from_str(s);
                pump!(reader, reader.read_event());
            }
            (None, Src::Slice) => {
                let mut reader = Reader::from_reader(bytes);
                pump!(reader, reader.read_event());
            }
            (None, Src::Buf(_)) => {
                let mut reader = Reader::from_reader(Source::new(bytes, &script));
                let mut buf = Vec::new();
                pump!(reader, { buf.clear(); reader.read_event_into(&mut buf) });
            }
        }
        Ok(seen)
    })
    .map_err(|p| format!("panic: {}", p))?
}

/// The UTF-8 text of a document carrying `chars` in every payload position.
fn document(label: Option<&str>, chars: &str) -> String {
    let decl = match label {
        Some(l) => format!("<?xml version=\"1.0\" encoding=\"{}\"?>", l),
        None => String::new(),
    };
    format!(
        "{decl}<r{c} k{c}=\"v{c}&lt;\"><!--c{c}--><?p d{c}?><![CDATA[{c}]{c}]]>t{c}&amp;<e{c}/></r{c}>",
        decl = decl,
        c = chars
    )
}

fn expected_strings(label: Option<&str>, chars: &str) -> (Vec<u8>, Vec<String>) {
    let c = chars;
    let mut kinds = Vec::new();
    let mut s = Vec::new();
    if let Some(l) = label {
        kinds.push(7);
        s.push(format!("xml version=\"1.0\" encoding=\"{}\"", l));
    }
    kinds.extend([1, 6, 8, 5, 4, 2, 3]);
    s.extend([
        format!("r{}", c),
        format!("k{}", c),
        format!("v{}<", c),
        format!("c{}", c),
        format!("p d{}", c),
        format!("{c}]{c}", c = c),
        format!("t{}&", c),
        format!("e{}", c),
        format!("r{}", c),
    ]);
    (kinds, s)
}

fn check_encoding(acc: &mut Acc, order: (u32, u64), enc: &'static Encoding, seed: u64) {
    let alpha = alphabet(enc);
    acc.count(&format!("alphabet.{}", enc.name()), alpha.len() as u64);
    let label = enc.name();
    let per_doc = 16;
    for (di, chunk) in alpha.chunks(per_doc).enumerate() {
        let chars: String = chunk.iter().map(|c| c.1).collect();
        let utf8_doc = document(Some(label), &chars);
        let (bytes, _, unmappable) = enc.encode(&utf8_doc);
        if unmappable {
            acc.violation(order, format!("MACHINERY: document for {} has unmappable characters", label), json!({"encoding": label, "doc": di}));
            continue;
        }
        let (kinds, strings) = expected_strings(Some(label), &chars);
        let mut variants: Vec<(String, Vec<u8>, Src, &'static str)> = vec![
            ("declaration, slice".into(), bytes.to_vec(), Src::Slice, label),
            ("declaration, buffered whole".into(), bytes.to_vec(), Src::Buf(0), label),
            ("declaration, buffered pieces of 4".into(), bytes.to_vec(), Src::Buf(4), label),
            ("declaration, buffered pieces of 7".into(), bytes.to_vec(), Src::Buf(7), label),
            ("declaration, buffered pieces of 1".into(), bytes.to_vec(), Src::Buf(1), label),
            ("declaration, buffered pieces of 2".into(), bytes.to_vec(), Src::Buf(2), label),
            ("declaration, buffered pieces of 3".into(), bytes.to_vec(), Src::Buf(3), label),
        ];
        // the declaration is honoured wherever it is found first, e.g. behind a line feed
        {
            let mut lead = b"\n".to_vec();
            lead.extend_from_slice(&bytes);
            acc.evaluations += 1;
            acc.traces += 1;
            for src in [Src::Slice, Src::Buf(5)] {
                match read_doc(&lead, src, None) {
                    Ok(seen) => {
                        if seen.kinds.first() != Some(&4) || seen.kinds[1..] != kinds[..] || seen.strings[1..] != strings[..] {
                            acc.violation(order, format!("{} document #{} behind a line feed ({:?}): payloads differ from the original: {:?}", label, di, src, seen.strings.get(2)), json!({"encoding": label, "doc": di, "variant": "leading newline"}));
                        } else {
                            acc.nt_count += 1;
                        }
                    }
                    Err(what) => acc.violation(order, format!("{} document #{} behind a line feed ({:?}): {}", label, di, src, what), json!({"encoding": label, "doc": di, "variant": "leading newline"})),
                }
            }
        }
        if enc == encoding_rs::UTF_8 {
            let mut with_bom = vec![0xEF, 0xBB, 0xBF];
            with_bom.extend_from_slice(&bytes);
            variants.push(("UTF-8 BOM + declaration, slice".into(), with_bom.clone(), Src::Slice, label));
            variants.push(("UTF-8 BOM + declaration, buffered pieces of 4".into(), with_bom, Src::Buf(4), label));
        }
        for (name, b, src, want_enc) in variants {
            acc.evaluations += 1;
            acc.traces += 1;
            match read_doc(&b, src, None) {
                Ok(seen) => {
                    acc.transitions += seen.kinds.len() as u64;
                    let enc_ok = seen.encodings.iter().skip(1).all(|e| *e == want_enc);
                    if seen.kinds != kinds || seen.strings != strings || !enc_ok {
                        let k = (0..strings.len().max(seen.strings.len())).find(|&k| strings.get(k) != seen.strings.get(k));
                        acc.violation(
                            order,
                            format!("{} document #{} ({}): kinds {:?} (expected {:?}), first differing payload {:?} vs original {:?}, decoder encodings {:?}", label, di, name, seen.kinds, kinds, k.and_then(|k| seen.strings.get(k)), k.and_then(|k| strings.get(k)), seen.encodings),
                            json!({"encoding": label, "doc": di, "variant": name}),
                        );
                    } else {
                        acc.nt_count += 1;
                        acc.state(h64(&(label, chunk.len())));
                    }
                }
                Err(what) => acc.violation(order, format!("{} document #{} ({}): {}", label, di, name, what), json!({"encoding": label, "doc": di, "variant": name})),
            }
        }
        // an encoding fixed by constructing the reader from a string is not overridden by the declaration
        acc.evaluations += 1;
        acc.traces += 1;
        match read_doc(&[], Src::Slice, Some(&utf8_doc)) {
            Ok(seen) => {
                if seen.strings != strings || !seen.encodings.iter().all(|e| *e == "UTF-8") {
                    acc.violation(order, format!("from_str with a declaration of {}: decoder encodings {:?}, payloads {:?}", label, seen.encodings, seen.strings.get(1)), json!({"encoding": label, "doc": di, "variant": "from_str"}));
                } else {
                    acc.nt_count += 1;
                }
            }
            Err(what) => acc.violation(order, format!("from_str with a declaration of {}: {}", label, what), json!({"encoding": label, "doc": di, "variant": "from_str"})),
        }
        if di == 0 {
            acc.sample(seed, h64(&label), || json!({"encoding": label, "characters": chars, "document_utf8": utf8_doc}));
        }
    }
    // every character of the alphabet (capped per encoding) as the FIRST character of every payload
    let step = (alpha.len() / 96).max(1);
    for (ci, (_, c)) in alpha.iter().enumerate().filter(|(i, _)| i % step == 0 || *i < 32) {
        let utf8_doc = format!("<?xml version=\"1.0\" encoding=\"{l}\"?><r k=\"{c}v\" {c}k=\"{c}\"><!--{c}c--><?p {c}d?><![CDATA[{c}]]>{c}t<{c}e/>{c}</r>", l = label, c = c);
        let (bytes, _, unmappable) = enc.encode(&utf8_doc);
        if unmappable {
            continue;
        }
        let strings: Vec<String> = vec![
            format!("xml version=\"1.0\" encoding=\"{}\"", label), "r".into(), "k".into(), format!("{}v", c), format!("{}k", c), format!("{}", c), format!("{}c", c), format!("p {}d", c),
            format!("{}", c), format!("{}t", c), format!("{}e", c), format!("{}", c), "r".into(),
        ];
        for src in [Src::Slice, Src::Buf(0), Src::Buf(5)] {
            acc.evaluations += 1;
            acc.traces += 1;
            match read_doc(&bytes, src, None) {
                Ok(seen) if seen.strings == strings => acc.nt_count += 1,
                Ok(seen) => {
                    let k = (0..strings.len().max(seen.strings.len())).find(|&k| strings.get(k) != seen.strings.get(k));
                    acc.violation(order, format!("{} character {:?} (U+{:04X}) first in every payload ({:?}): payload {:?} read as {:?}", label, c, *c as u32, src, k.and_then(|k| strings.get(k)), k.and_then(|k| seen.strings.get(k))), json!({"encoding": label, "lead_char": ci}))
                }
                Err(what) => acc.violation(order, format!("{} character {:?} (U+{:04X}) first in every payload ({:?}): {}", label, c, *c as u32, src, what), json!({"encoding": label, "lead_char": ci})),
            }
        }
    }
    // long payloads (size thresholds of the decoder: block-wise decoding, buffer growth): the alphabet
    // cycled up to N bytes in an attribute value, a text (behind 0..3 ASCII bytes) and a comment
    if !alpha.is_empty() {
        for &n in &[1000usize, 1023, 1024, 1025, 1026, 2047, 2049, 4095, 4096, 4097, 8191, 8193, 16385, 65537] {
            let mut t = String::new();
            let mut blen = 0;
            let mut i = 0;
            while blen < n {
                let (b, c) = &alpha[(i * 7 + i / alpha.len()) % alpha.len()];
                t.push(*c);
                blen += b.len();
                // ASCII in between, so that every alignment of lead and trail bytes against a block boundary occurs
                if i % 5 == 4 {
                    t.push('a');
                    blen += 1;
                }
                i += 1;
            }
            for pad in ["", "a", "ab", "abc"] {
                let utf8_doc = format!("<?xml version=\"1.0\" encoding=\"{l}\"?><r k=\"{t}\">{p}{t}<!--{t}--></r>", l = label, t = t, p = pad);
                let (bytes, _, unmappable) = enc.encode(&utf8_doc);
                if unmappable {
                    continue;
                }
                let strings: Vec<String> = vec![format!("xml version=\"1.0\" encoding=\"{}\"", label), "r".into(), "k".into(), t.clone(), format!("{}{}", pad, t), t.clone(), "r".into()];
                for src in [Src::Slice, Src::Buf(0), Src::Buf(4096), Src::Buf(7)] {
                    if n > 9000 && src == Src::Buf(7) {
                        continue;
                    }
                    acc.evaluations += 1;
                    acc.traces += 1;
                    match read_doc(&bytes, src, None) {
                        Ok(seen) if seen.strings == strings => acc.nt_count += 1,
                        Ok(seen) => {
                            let k = (0..strings.len().max(seen.strings.len())).find(|&k| strings.get(k) != seen.strings.get(k));
                            acc.violation(order, format!("{}: payloads of {} bytes behind {:?} ({:?}): payload #{:?} differs from the original", label, n, pad, src, k), json!({"encoding": label, "long": n}))
                        }
                        Err(what) => acc.violation(order, format!("{}: payloads of {} bytes behind {:?} ({:?}): {}", label, n, pad, src, what.chars().take(300).collect::<String>()), json!({"encoding": label, "long": n})),
                    }
                }
            }
        }
    }
    // malformed sequences must give a decoding error, never replacement characters
    let mut malformed: Vec<Vec<u8>> = Vec::new();
    for lead in 0x80..=0xFFu8 {
        if enc.decode_without_bom_handling_and_without_replacement(&[lead, b'a']).is_none() && !STRUCTURAL.contains(&lead) {
            malformed.push(vec![lead]);
        }
        for trail in [0x20u8, 0x30, 0x39, 0x40, 0x7F, 0x80, 0xA0, 0xFF] {
            let seq = [lead, trail];
            if STRUCTURAL.contains(&trail) {
                continue;
            }
            if enc.decode_without_bom_handling_and_without_replacement(&[lead, trail, b'a']).is_none() {
                malformed.push(seq.to_vec());
            }
        }
    }
    acc.count(&format!("malformed.{}", enc.name()), malformed.len() as u64);
    for (mi, seq) in malformed.iter().enumerate() {
        for pos in 0..4 {
            let mut doc = format!("<?xml version=\"1.0\" encoding=\"{}\"?><r k=\"", label).into_bytes();
            // positions 2 and 3: the sequence is the very end of the payload (a truncated multi-byte character)
            if pos >= 2 && enc.decode_without_bom_handling_and_without_replacement(seq).is_some() {
                continue;
            }
            match pos {
                0 => {
                    doc.extend_from_slice(seq);
                    doc.extend_from_slice(b"a\">t</r>");
                }
                1 => {
                    doc.extend_from_slice(b"v\">t");
                    doc.extend_from_slice(seq);
                    doc.extend_from_slice(b"a</r>");
                }
                2 => {
                    doc.extend_from_slice(b"a");
                    doc.extend_from_slice(seq);
                    doc.extend_from_slice(b"\">t</r>");
                }
                _ => {
                    doc.extend_from_slice(b"v\">t");
                    doc.extend_from_slice(seq);
                    doc.extend_from_slice(b"</r>");
                }
            }
            for src in [Src::Slice, Src::Buf(4)] {
                acc.evaluations += 1;
                acc.traces += 1;
                match read_doc(&doc, src, None) {
                    Err(e) if e.starts_with("panic") || e.contains("DISAGREE") => acc.violation(order, format!("{}: malformed bytes {:02x?}: {}", label, seq, e), json!({"encoding": label, "malformed": mi, "pos": pos})),
                    Err(_) => acc.nt_count += 1, // any error is an error (e.g. an escape error is impossible here, reader errors are acceptable)
                    Ok(seen) => acc.violation(
                        order,
                        format!("{}: malformed bytes {:02x?} in {} were decoded without an error: payloads {:?}", label, seq, if pos % 2 == 0 { "an attribute value" } else { "text" }, seen.strings),
                        json!({"encoding": label, "malformed": mi, "pos": pos}),
                    ),
                }
            }
        }
    }
}

/// A byte-order mark must be removed also when the very first refill fails with a transient I/O error
/// and the caller simply reads on.
fn bom_after_transient_error(acc: &mut Acc, order: (u32, u64)) {
    use crate::env::Fault;
    let docs: [&[u8]; 5] = [b"\xEF\xBB\xBF<?xml version=\"1.0\"?><r>t</r>", b"\xEF\xBB\xBF<r/>", b"\xEF\xBB\xBFtext<r/>", b"\xFF\xFE<\x00r\x00/\x00>\x00", b"\xFE\xFF\x00<\x00r\x00/\x00>"];
    for doc in docs {
        for piece in [0usize, 4, 5] {
            // a hard transient error the caller reads on after, and an Interrupted the reader must retry itself
            for kind in [std::io::ErrorKind::WouldBlock, std::io::ErrorKind::TimedOut, std::io::ErrorKind::Interrupted] {
                let mut script = Script::pieces(piece);
                script.faults.push((0, if kind == std::io::ErrorKind::Interrupted { Fault::Interrupted } else { Fault::Hard(kind) }));
                let clean = Script::pieces(piece);
                let run = |sc: &Script| -> Result<Vec<String>, String> {
                    guarded_mut(|| {
                        let mut reader = Reader::from_reader(Source::new(doc, sc));
                        let mut buf = Vec::new();
                        let mut evs = Vec::new();
                        let mut io_errors = 0;
                        for _ in 0..doc.len() + 8 {
                            buf.clear();
                            match reader.read_event_into(&mut buf) {
                                Ok(Event::Eof) => break,
                                Ok(e) => evs.push(format!("{:?}", e)),
                                Err(quick_xml::Error::Io(_)) => {
                                    io_errors += 1;
                                    if io_errors > 1 {
                                        break;
                                    }
                                }
                                Err(e) => {
                                    evs.push(format!("Err({:?})", e));
                                    break;
                                }
                            }
                        }
                        evs
                    })
                    .map_err(|p| format!("panic: {}", p))
                };
                acc.evaluations += 1;
                acc.traces += 1;
                match (run(&clean), run(&script)) {
                    (Ok(a), Ok(b)) if a == b => acc.nt_count += 1,
                    (a, b) => acc.violation(
                        order,
                        format!("document {:?}, pieces of {}: after a transient {:?} at the first refill the events are {:?}; without the fault {:?}", lossy(doc), piece, kind, b, a),
                        json!({"encoding": "UTF-8", "variant": "BOM after transient error"}),
                    ),
                }
            }
        }
    }
}


// ---------------------------------------------------------------------------------------------
// The documented four-state machine that decides which encoding wins (reader/mod.rs, EncodingRef):
//   Implicit --from_str--> Explicit; Implicit --BOM--> BomDetected;
//   Implicit | BomDetected --<?xml encoding=...?>--> XmlDetected; Explicit and XmlDetected never change.
// Explored exhaustively over token sequences; the model is the diagram, the observation is
// `decoder().encoding()` after every event plus every payload decoded with that decoder.

#[derive(Clone, Copy, PartialEq, Debug)]
enum Est {
    Implicit,
    Explicit,
    Bom,
    Xml,
}

/// (bytes, kind, label declared by the token if it is an XML declaration with a known label)
const SM_TOKENS: [(&[u8], u8, Option<&str>); 12] = [
    (b"<?xml version=\"1.0\"?>", 7, None),
    (b"<?xml version=\"1.0\" encoding=\"windows-1251\"?>", 7, Some("windows-1251")),
    (b"<?xml version='1.0' encoding='KOI8-R'?>", 7, Some("KOI8-R")),
    (b"<?xml encoding=\"utf-8\"?>", 7, Some("UTF-8")),
    (b"<?xml version=\"1.0\" encoding=\"no-such-label\"?>", 7, None),
    (b"<?xml version=\"1.0\" encoding=\"ISO-8859-5\" standalone=\"yes\"?>", 7, Some("ISO-8859-5")),
    (b"<?xmlx encoding=\"KOI8-R\"?>", 8, None),
    (b"<?pi encoding=\"KOI8-R\"?>", 8, None),
    (b"\xD0\xB0\xD1\x8F", 4, None),
    (b"<e a=\"\xD0\xB0\"/>", 2, None),
    (b"<!--\xD1\x8F-->", 6, None),
    (b"\n", 4, None),
];

fn sm_expected(seq: &[u8], bom: bool, from_str: bool) -> Vec<(u8, &'static Encoding)> {
    let mut st = if from_str { Est::Explicit } else { Est::Implicit };
    let mut enc: &'static Encoding = encoding_rs::UTF_8;
    if bom && st == Est::Implicit {
        st = Est::Bom;
    }
    let mut out: Vec<(u8, &'static Encoding)> = Vec::new();
    let mut prev_text = false;
    for &t in seq {
        let (_, kind, label) = SM_TOKENS[t as usize];
        if let Some(l) = label {
            if st == Est::Implicit || st == Est::Bom {
                st = Est::Xml;
                enc = Encoding::for_label(l.as_bytes()).unwrap();
            }
        }
        // adjacent text tokens are one text run
        if kind == 4 && prev_text {
            continue;
        }
        prev_text = kind == 4;
        out.push((kind, enc));
    }
    out
}

fn sm_check(seq: &[u8], bom: bool, src: u8) -> Result<(), String> {
    let mut doc = Vec::new();
    if bom {
        doc.extend_from_slice(&[0xEF, 0xBB, 0xBF]);
    }
    for &t in seq {
        doc.extend_from_slice(SM_TOKENS[t as usize].0);
    }
    let from_str = src == 0;
    let want = sm_expected(seq, bom, from_str);
    let script = match src {
        2 => Script::whole(),
        3 => Script::pieces(4),
        4 => Script::pieces(7),
        _ => Script::pieces(1),
    };
    let got = guarded_mut(|| -> Result<Vec<(u8, &'static Encoding, Vec<u8>, Result<String, String>)>, String> {
        let mut out = Vec::new();
        macro_rules! pump {
            ($reader:ident, $read:expr) => {{
                for _ in 0..doc.len() + 8 {
                    let ev = $read.map_err(|e| format!("reader error {:?}", e))?;
                    let dec = $reader.decoder();
                    let (kind, bytes): (u8, Vec<u8>) = match &ev {
                        Event::Eof => break,
                        Event::Decl(e) => (7, e.to_vec()),
                        Event::PI(e) => (8, e.to_vec()),
                        Event::Text(e) => (4, e.to_vec()),
                        Event::Comment(e) => (6, e.to_vec()),
                        Event::Empty(e) => (2, e.attributes().next().and_then(|a| a.ok()).map(|a| a.value.to_vec()).unwrap_or_default()),
                        other => return Err(format!("unexpected event {:?}", other)),
                    };
                    let s = dec.decode(&bytes).map(|c| c.into_owned()).map_err(|e| format!("{:?}", e));
                    out.push((kind, dec.encoding(), bytes, s));
                }
            }};
        }
        match src {
            0 => {
                let text = std::str::from_utf8(&doc).map_err(|e| e.to_string())?;
                let mut reader = Reader::from_str(text);
                pump!(reader, reader.read_event());
            }
            1 => {
                let mut reader = Reader::from_reader(&doc[..]);
                pump!(reader, reader.read_event());
            }
            _ => {
                let mut reader = Reader::from_reader(Source::new(&doc, &script));
                let mut buf = Vec::new();
                pump!(reader, { buf.clear(); reader.read_event_into(&mut buf) });
            }
        }
        Ok(out)
    })
    .map_err(|p| format!("panic: {}", p))??;
    if got.len() != want.len() {
        return Err(format!("{} events, the token sequence has {}", got.len(), want.len()));
    }
    for (k, (g, w)) in got.iter().zip(want.iter()).enumerate() {
        if g.0 != w.0 {
            return Err(format!("event #{} has kind {}, expected {}", k, g.0, w.0));
        }
        if g.1 != w.1 {
            return Err(format!("after event #{} the decoder's encoding is {}, the documented state machine gives {}", k, g.1.name(), w.1.name()));
        }
        if g.2.starts_with(&[0xEF, 0xBB, 0xBF]) {
            return Err(format!("event #{} starts with a byte-order mark", k));
        }
        let reference = w.1.decode_without_bom_handling_and_without_replacement(&g.2).map(|c| c.into_owned());
        match (&g.3, &reference) {
            (Ok(a), Some(b)) if a == b => {}
            (Err(_), None) => {}
            _ => return Err(format!("payload {:02x?} of event #{} decodes to {:?}; {} gives {:?}", g.2, k, g.3, w.1.name(), reference)),
        }
    }
    Ok(())
}

fn sm_name(src: u8) -> &'static str {
    ["Reader::from_str", "slice", "buffered whole", "buffered pieces of 4", "buffered pieces of 7", "buffered pieces of 1"][src as usize]
}

pub fn run(ctx: &Ctx) {
    ctx.set_rule(
        "for every encoding_rs encoding that reports itself ASCII-compatible (36 of 40): the alphabet is EVERY one- and two-byte high \
         sequence (plus gb18030 four-byte range boundaries) that decodes without error to one character and re-encodes to itself; the \
         characters are packed 16 per document into element name, attribute name, attribute value, comment, PI data, CDATA (also around \
         a `]`), text; every character of a per-encoding subset also as the FIRST character of every payload; long payloads (the alphabet cycled up to 1000 … 65537 bytes in an attribute value, a text and a comment, shifted by 0..3 bytes); each document is transcoded from its UTF-8 original, labelled in its declaration, and read from a slice and a \
         buffered source (whole, pieces of 1, 2, 3, 4 and 7), also behind a line feed; for UTF-8 also behind a BOM. Oracle: the same event kinds, every payload decoded \
         with the reader's decoder (and unescaped) equals the original string, the decoder reports the declared encoding after the \
         declaration, Reader::from_str keeps UTF-8 whatever is declared, no BOM inside an event — also when the very first refill fails with a transient I/O error and the caller reads on. Malformed: every lead byte / (lead, \
         trail) pair the encoding rejects, injected into an attribute value and into text, in the middle and as the very end of the payload => an error from decode() and decode_into() alike, never replacement characters. \
         Encoding state machine: every sequence of up to N tokens over 12 (six XML declarations with/without/unknown encoding label, two look-alike PIs,          text and attribute bytes that are valid in all the encodings involved, a comment, a line feed), with and without a UTF-8 BOM, through from_str, a slice and a          buffered source (whole, pieces of 4, 7, 1): decoder().encoding() after every event equals the documented Implicit/Explicit/BomDetected/XmlDetected machine and every payload decodes accordingly.          evaluations = documents read; non-trivial = documents that were read and compared; states = (encoding, document size)",
    );
    ctx.assume("non-ASCII-compatible encodings (UTF-16LE/BE, ISO-2022-JP, replacement) are documented as unsupported and skipped");
    let encs = encodings();
    let seed = ctx.seed;
    ctx.layer("encodings", 0, encs.len() as u64, json!({"encodings": encs.iter().map(|e| e.name()).collect::<Vec<_>>()}), |i, acc| {
        check_encoding(acc, (0, i), encs[i as usize], seed);
        if encs[i as usize] == encoding_rs::UTF_8 {
            bom_after_transient_error(acc, (0, i));
        }
    });

    let k = SM_TOKENS.len() as u64;
    let n = ctx.tier.pick(4, 6);
    ctx.layer(
        "encoding_state_machine",
        1,
        count_upto(k, n) * 2,
        json!({"tokens": SM_TOKENS.iter().map(|t| lossy(t.0)).collect::<Vec<_>>(), "max_tokens": n, "bom": [false, true],
               "sources": (0..6u8).map(sm_name).collect::<Vec<_>>(), "model": "Implicit/Explicit/BomDetected/XmlDetected as documented on EncodingRef"}),
        |i, acc| {
            let bom = i % 2 == 1;
            let mut seq = Vec::new();
            decode_upto(k, n, i / 2, &mut seq);
            for src in 0..6u8 {
                // the stated exception: the BOM sniff may look only at the first piece
                if bom && src == 5 {
                    continue;
                }
                acc.evaluations += 1;
                acc.traces += 1;
                acc.transitions += seq.len() as u64;
                match sm_check(&seq, bom, src) {
                    Ok(()) => {
                        let decls = seq.iter().filter(|&&t| SM_TOKENS[t as usize].2.is_some()).count();
                        if decls >= 1 {
                            acc.nt_count += 1;
                        }
                        acc.state(h64(&(bom, src == 0, decls.min(3), seq.first().map(|&t| SM_TOKENS[t as usize].2.is_some()))));
                    }
                    Err(what) => {
                        let doc: Vec<u8> = seq.iter().flat_map(|&t| SM_TOKENS[t as usize].0.to_vec()).collect();
                        acc.violation((1, i), format!("{}document {:?} read through {}: {}", if bom { "BOM + " } else { "" }, lossy(&doc), sm_name(src), what), json!({"sm_seq": seq, "bom": bom, "src": src}))
                    }
                }
            }
        },
    );
}

pub fn replay(case: &Value) -> Result<(), String> {
    if let Some(seq) = case.get("sm_seq").and_then(|s| s.as_array()) {
        let seq: Vec<u8> = seq.iter().map(|x| x.as_u64().unwrap() as u8).collect();
        let bom = case["bom"].as_bool().unwrap_or(false);
        let src = case["src"].as_u64().unwrap_or(1) as u8;
        println!("tokens {:?} bom {} source {}", seq, bom, sm_name(src));
        return sm_check(&seq, bom, src);
    }
    let label = case["encoding"].as_str().ok_or("no encoding")?;
    let enc = Encoding::for_label(label.as_bytes()).ok_or("unknown encoding")?;
    let mut acc = Acc::default();
    check_encoding(&mut acc, (0, 0), enc, 0);
    match acc.violations.first() {
        Some(v) => Err(v.what.clone()),
        None => Ok(()),
    }
}
