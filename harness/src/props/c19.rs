//! C19 — Indentation adds only whitespace between markup and never touches content.

use crate::common::*;
use crate::env::{block_on, ScriptedWrite};
use crate::props::c06::{de, ser, SerCfg};
use crate::props::c09::{build, read_back, Canon, Spec};
use crate::types::*;
use quick_xml::events::Event;
use quick_xml::reader::Reader;
use quick_xml::writer::Writer;
use serde_json::{json, Value};
use std::collections::{HashSet, VecDeque};

fn alphabet() -> Vec<Spec> {
    let s = |x: &str| x.to_string();
    vec![
        Spec::Start(s("a"), vec![]),
        Spec::Start(s("bb"), vec![(s("k"), s("v w"))]),
        Spec::End(s("a")),
        Spec::End(s("bb")),
        Spec::Empty(s("e"), vec![]),
        Spec::Empty(s("e"), vec![(s("k"), s("\n"))]),
        Spec::Text(s("t")),
        Spec::Text(s("")),
        Spec::Text(s(" x\n")),
        // blank-only text is text: no line break may follow it either
        Spec::Text(s(" ")),
        Spec::Text(s("\n\t")),
        Spec::CData(s(" ")),
        Spec::CData(s("c")),
        Spec::CData(s("")),
        Spec::Comment(s("c")),
        Spec::Comment(s("")),
        Spec::PI(s("p d")),
        Spec::PI(s("q")),
        Spec::Decl(s("1.0"), None, None),
        Spec::Decl(s("1.1"), Some(s("UTF-8")), None),
        Spec::DocType(s("d")),
        Spec::DocType(s("d [<!ENTITY x 'y'>]")),
        Spec::Eof,
    ]
}

fn is_textlike(s: &Spec) -> bool {
    matches!(s, Spec::Text(_) | Spec::CData(_))
}
fn is_markup(s: &Spec) -> bool {
    !matches!(s, Spec::Text(_) | Spec::CData(_) | Spec::Eof)
}

fn write_one(w: &mut Writer<Vec<u8>>, s: &Spec) -> Result<(), String> {
    guarded_mut(|| {
        for e in build(s) {
            w.write_event(e).unwrap();
        }
    })
    .map_err(|p| format!("panic: {}", p))
}

/// One transition of the indenting writer against the plain writer.
/// Returns the number of indent characters written.
fn step(ind: &mut Writer<Vec<u8>>, plain: &mut Writer<Vec<u8>>, s: &Spec, prev_textlike: bool, ch: u8) -> Result<Option<usize>, String> {
    let before_i = ind.get_mut().len();
    let before_p = plain.get_mut().len();
    write_one(ind, s)?;
    write_one(plain, s)?;
    let added_i = ind.get_mut()[before_i..].to_vec();
    let added_p = plain.get_mut()[before_p..].to_vec();
    if added_i == added_p {
        return Ok(None);
    }
    if !added_i.ends_with(&added_p) {
        return Err(format!("indenting writer appended {:?}, plain writer {:?}: not a whitespace prefix + the plain bytes", lossy(&added_i), lossy(&added_p)));
    }
    let prefix = &added_i[..added_i.len() - added_p.len()];
    let ok_shape = prefix.first() == Some(&b'\n') && prefix[1..].iter().all(|&b| b == ch);
    if !ok_shape {
        return Err(format!("indenting writer inserted {:?} before {:?}: not a line break followed by indent characters", lossy(prefix), lossy(&added_p)));
    }
    if !is_markup(s) {
        return Err(format!("indentation {:?} was inserted before non-markup {:?}", lossy(prefix), s));
    }
    if prev_textlike {
        return Err(format!("indentation {:?} was inserted before {:?} directly after text / CDATA", lossy(prefix), s));
    }
    Ok(Some(prefix.len() - 1))
}

/// Canonical key of the indentation state: what two probe comments produce on a clone (reveals
/// should_line_break and the current indent length, the only fields the future depends on).
fn probe(w: &Writer<Vec<u8>>) -> Vec<u8> {
    // a panic while probing is a panic of the writer: it becomes a distinct key here and is reported by the
    // next transition from this state (every event is written under catch_unwind there)
    guarded_mut(|| {
        let mut c = w.clone();
        let n = c.get_mut().len();
        let _ = c.write_event(Event::Comment(quick_xml::events::BytesText::new("p")));
        let _ = c.write_event(Event::Comment(quick_xml::events::BytesText::new("p")));
        c.get_mut()[n..].to_vec()
    })
    .unwrap_or_else(|p| format!("PANIC {}", p).into_bytes())
}

fn bfs(acc: &mut Acc, order: (u32, u64), ch: u8, size: usize, max_depth_chars: usize) {
    let alpha = alphabet();
    // state: (indenting writer, plain writer, prev_textlike, history)
    struct St {
        ind: Writer<Vec<u8>>,
        plain: Writer<Vec<u8>>,
        prev_textlike: bool,
        hist: Vec<u8>,
    }
    let mut seen: HashSet<(Vec<u8>, bool)> = HashSet::new();
    let mut q = VecDeque::new();
    let start = St { ind: Writer::new_with_indent(Vec::new(), ch, size), plain: Writer::new(Vec::new()), prev_textlike: false, hist: vec![] };
    seen.insert((probe(&start.ind), false));
    q.push_back(start);
    let mut max_indent = 0usize;
    while let Some(st) = q.pop_front() {
        for (ai, s) in alpha.iter().enumerate() {
            // keep the buffers small: the future only depends on the indentation state
            let mut ind = st.ind.clone();
            let mut plain = st.plain.clone();
            acc.transitions += 1;
            match step(&mut ind, &mut plain, s, st.prev_textlike, ch) {
                Err(what) => {
                    let hist: Vec<String> = st.hist.iter().map(|&h| format!("{:?}", alpha[h as usize])).collect();
                    acc.violation(
                        order,
                        format!("indent char {:?} x{}: after [{}] writing {:?}: {}", ch as char, size, hist.join(", "), s, what),
                        json!({"kind": "writer", "char": ch, "size": size, "history": st.hist, "event": ai}),
                    );
                    return;
                }
                Ok(n) => {
                    if let Some(n) = n {
                        max_indent = max_indent.max(n);
                    }
                }
            }
            if matches!(s, Spec::Eof) {
                continue; // an end-of-document event comes last
            }
            let textlike = is_textlike(s);
            let key = (probe(&ind), textlike);
            if key.0.len() > 2 * max_depth_chars + 18 {
                continue; // deep enough: past the pre-allocated 128 indent bytes
            }
            if seen.insert(key) {
                ind.get_mut().clear();
                plain.get_mut().clear();
                let mut hist = st.hist.clone();
                hist.push(ai as u8);
                q.push_back(St { ind, plain, prev_textlike: textlike, hist });
            }
        }
    }
    acc.count("bfs_states", seen.len() as u64);
    acc.count(&format!("max_indent_chars_reached.{}x{}", if ch == b' ' { "space" } else { "tab" }, size), max_indent as u64);
    for k in &seen {
        acc.state(h64(&(ch, size, k)));
    }
}

/// The positional rule of the property, on whole outputs: the indented output is the plain output with
/// `\n` + indent characters inserted only immediately in front of markup that does not follow text or
/// CDATA. Tokens come from the reference lexer run on the plain output.
pub fn positional_rule(plain: &[u8], ind: &[u8], ch: u8) -> Result<(), String> {
    use crate::models::lex::{lex, Kind};
    let lx = lex(plain);
    let mut spans: Vec<(usize, usize, bool)> = lx.toks.iter().map(|t| (t.span.start, t.span.end, matches!(t.kind, Kind::Text | Kind::CData))).collect();
    let covered = spans.last().map_or(0, |s| s.1);
    if covered < plain.len() {
        // an unfinished construct at the end (unbalanced sequences): one opaque markup token
        spans.push((covered, plain.len(), false));
    }
    let mut pos = 0usize;
    let mut prev_textlike = false;
    for (a, b, textlike) in spans {
        let tok = &plain[a..b];
        if ind[pos.min(ind.len())..].starts_with(tok) && !(tok.is_empty()) {
            pos += tok.len();
        } else {
            // an insertion: must be \n + indent chars, before markup, not after text / CDATA
            let rest = &ind[pos.min(ind.len())..];
            if rest.first() != Some(&b'\n') {
                return Err(format!("at byte {} the indented output continues with {:?}, the plain output with {:?}", pos, lossy(&rest[..rest.len().min(30)]), lossy(&tok[..tok.len().min(30)])));
            }
            let mut k = 1;
            while k < rest.len() && rest[k] == ch {
                k += 1;
            }
            if !rest[k..].starts_with(tok) {
                return Err(format!("at byte {} the indented output has {:?} where the plain output has {:?}: not a line break + indent in front of the same token", pos, lossy(&rest[..rest.len().min(40)]), lossy(&tok[..tok.len().min(30)])));
            }
            if textlike {
                return Err(format!("a line break was inserted in front of text / CDATA {:?}", lossy(&tok[..tok.len().min(30)])));
            }
            if prev_textlike {
                return Err(format!("a line break was inserted in front of {:?} directly after text / CDATA", lossy(&tok[..tok.len().min(30)])));
            }
            pos += k + tok.len();
        }
        prev_textlike = textlike;
    }
    if pos != ind.len() {
        return Err(format!("the indented output has {:?} after the last token of the plain output", lossy(&ind[pos..ind.len().min(pos + 30)])));
    }
    Ok(())
}

fn drop_blank_texts(v: Vec<Canon>) -> Vec<Canon> {
    v.into_iter().filter(|c| !matches!(c, Canon::Text(t) if t.chars().all(|c| c.is_ascii_whitespace()))).collect()
}

/// Raw event list of a document: kinds + exact payload bytes (no unescaping, no merging).
fn raw_events(xml: &[u8]) -> Result<Vec<(u8, Vec<u8>)>, String> {
    let mut r = Reader::from_reader(xml);
    let c = r.config_mut();
    c.check_end_names = false;
    c.allow_unmatched_ends = true;
    c.trim_markup_names_in_closing_tags = false;
    let mut out = Vec::new();
    loop {
        match r.read_event().map_err(|e| format!("{:?}", e))? {
            Event::Eof => return Ok(out),
            Event::Text(t) => {
                if !t.iter().all(|b| b.is_ascii_whitespace()) {
                    out.push((4, t.to_vec()))
                }
            }
            Event::Start(e) => out.push((1, e.to_vec())),
            Event::Empty(e) => out.push((2, e.to_vec())),
            Event::End(e) => out.push((3, e.to_vec())),
            Event::CData(e) => out.push((5, e.to_vec())),
            Event::Comment(e) => out.push((6, e.to_vec())),
            Event::Decl(e) => out.push((7, e.to_vec())),
            Event::PI(e) => out.push((8, e.to_vec())),
            Event::DocType(e) => out.push((9, e.to_vec())),
        }
    }
}

fn sweep_serde<T: Fam>(ctx: &Ctx, ln: u32, level: usize) {
    let vals = T::values(level);
    ctx.layer(&format!("serde.{}", T::NAME), ln, vals.len() as u64, json!({"values": vals.len(), "variants": "quote level x expand x root; indent (' ',2) vs none"}), |i, acc| {
        let v = &vals[i as usize];
        for q in 0..3u8 {
            for expand in [false, true] {
                for root in [false, true] {
                    let plain_cfg = SerCfg { level: q, indent: false, expand, root };
                    let ind_cfg = SerCfg { level: q, indent: true, expand, root };
                    let (Ok(plain), Ok(ind)) = (ser(v, plain_cfg), ser(v, ind_cfg)) else { continue };
                    acc.evaluations += 1;
                    acc.traces += 1;
                    acc.transitions += 2;
                    let verdict = (|| -> Result<(), String> {
                        positional_rule(plain.as_bytes(), ind.as_bytes(), b' ').map_err(|m| format!("indented output {:?} vs plain {:?}: {}", ind, plain, m))?;
                        let a = raw_events(plain.as_bytes())?;
                        let b = raw_events(ind.as_bytes())?;
                        if a != b {
                            let k = (0..a.len().max(b.len())).find(|&k| a.get(k) != b.get(k)).unwrap_or(0);
                            return Err(format!(
                                "indented output {:?} differs from plain {:?} in more than blank text between markup: event #{} is {:?} vs {:?}",
                                ind, plain, k, b.get(k).map(|x| (x.0, lossy(&x.1))), a.get(k).map(|x| (x.0, lossy(&x.1)))
                            ));
                        }
                        // and the values agree
                        let (da, db) = (de::<T>(&plain), de::<T>(&ind));
                        if da.is_ok() && (db.as_ref().ok() != da.as_ref().ok()) {
                            return Err(format!("plain {:?} deserializes as {:?}, indented {:?} as {:?}", plain, da, ind, db));
                        }
                        Ok(())
                    })();
                    match verdict {
                        Ok(()) => {
                            if ind != plain {
                                acc.nt_count += 1;
                            }
                        }
                        Err(what) => acc.violation((ln, i), format!("{} value {:?} ({:?}): {}", T::NAME, v, ind_cfg, what), json!({"kind": "serde", "type": T::NAME, "index": i, "level": level, "cfg": ind_cfg.index()})),
                    }
                }
            }
        }
    });
}

/// Serialize-only mixed content with items that write nothing (`None`, empty nested sequence).
#[derive(serde::Serialize, Debug, Clone)]
struct MixedOpt {
    #[serde(rename = "@k")]
    k: u8,
    #[serde(rename = "$value")]
    items: Vec<Option<Choice>>,
}
#[derive(serde::Serialize, Debug, Clone)]
struct MixedNested {
    #[serde(rename = "$value")]
    items: Vec<Vec<Choice>>,
    tail: String,
}

fn sweep_serde_extra(ctx: &Ctx, ln: u32, max: u32) {
    let pool: Vec<Option<Choice>> = vec![None, Some(Choice::Text("t".into())), Some(Choice::Unit), Some(Choice::Newtype("n".into())), Some(Choice::Struct { a: "a".into(), b: "".into() })];
    let k = pool.len() as u64;
    ctx.layer("serde.mixed_with_silent_items", ln, count_upto(k, max) * 2, json!({"pool": ["None / empty nested sequence", "$text item", "unit element", "newtype element", "struct element"], "max_len": max, "types": ["$value: Vec<Option<Choice>>", "$value: Vec<Vec<Choice>>"]}), |i, acc| {
        let mut d = Vec::new();
        decode_upto(k, max, i / 2, &mut d);
        let items: Vec<Option<Choice>> = d.iter().map(|&x| pool[x as usize].clone()).collect();
        for q in 0..3u8 {
            for expand in [false, true] {
                let plain_cfg = SerCfg { level: q, indent: false, expand, root: false };
                let ind_cfg = SerCfg { indent: true, ..plain_cfg };
                let (p, n) = if i % 2 == 0 {
                    let v = MixedOpt { k: 1, items: items.clone() };
                    (ser(&v, plain_cfg), ser(&v, ind_cfg))
                } else {
                    let v = MixedNested { items: items.iter().map(|o| o.iter().cloned().collect()).collect(), tail: "z".into() };
                    (ser(&v, plain_cfg), ser(&v, ind_cfg))
                };
                let (Ok(plain), Ok(ind)) = (p, n) else { continue };
                acc.evaluations += 1;
                acc.traces += 1;
                acc.transitions += 2;
                let (a, b) = (raw_events(plain.as_bytes()), raw_events(ind.as_bytes()));
                if a.is_err() || a != b {
                    acc.violation(
                        (ln, i),
                        format!("items {:?} ({:?}): indented output {:?} differs from plain {:?} in more than blank text between markup", items, ind_cfg, ind, plain),
                        json!({"kind": "serde_extra", "indices": d, "nested": i % 2 == 1}),
                    );
                } else if ind != plain {
                    acc.nt_count += 1;
                }
            }
        }
    });
}


// ---------------------------------------------------------------------------------------------
// Struct shapes enumerated as field sequences. A map whose keys are `$text`, `$value`, `@a`, `e`,
// `v` goes through exactly the code a derived struct with these fields goes through
// (se::element::Map delegates to Struct::write_field), so every order of field kinds up to a bound
// is a struct shape — including values that write nothing between a text and an element.

#[derive(serde::Serialize, Debug, Clone)]
enum Quiet {
    #[serde(rename = "$text")]
    Txt(String),
    #[serde(rename = "$text")]
    Silent,
    El,
}

#[derive(Debug, Clone, Copy, PartialEq)]
enum FVal {
    Str(&'static str),
    Unit,
    NoneV,
    EmptySeq,
    Seq1,
    Num,
    QTxt,
    QSilent,
    QEl,
    QMix,
    NestedEmpty,
}

impl serde::Serialize for FVal {
    fn serialize<S: serde::Serializer>(&self, s: S) -> Result<S::Ok, S::Error> {
        match self {
            FVal::Str(x) => s.serialize_str(x),
            FVal::Unit => s.serialize_unit(),
            FVal::NoneV => s.serialize_none(),
            FVal::EmptySeq => Vec::<String>::new().serialize(s),
            FVal::Seq1 => vec!["1"].serialize(s),
            FVal::Num => s.serialize_u8(7),
            FVal::QTxt => Quiet::Txt("q".into()).serialize(s),
            FVal::QSilent => Quiet::Silent.serialize(s),
            FVal::QEl => Quiet::El.serialize(s),
            FVal::QMix => vec![Quiet::Txt("m".into()), Quiet::Silent, Quiet::El].serialize(s),
            FVal::NestedEmpty => vec![Vec::<Quiet>::new(), vec![Quiet::El]].serialize(s),
        }
    }
}

const FIELDS: [(&str, FVal); 16] = [
    ("$text", FVal::Str("x")),
    ("$value", FVal::Unit),
    ("$value", FVal::NoneV),
    ("$value", FVal::EmptySeq),
    ("$value", FVal::QTxt),
    ("$value", FVal::QEl),
    ("$value", FVal::Num),
    ("$value", FVal::QSilent),
    ("$value", FVal::QMix),
    ("$value", FVal::NestedEmpty),
    ("e", FVal::Str("1")),
    ("e", FVal::NoneV),
    ("v", FVal::EmptySeq),
    ("v", FVal::Seq1),
    ("@a", FVal::Str("1")),
    ("$text", FVal::Num),
];

struct Shape(Vec<u8>);
impl serde::Serialize for Shape {
    fn serialize<S: serde::Serializer>(&self, s: S) -> Result<S::Ok, S::Error> {
        use serde::ser::SerializeMap;
        let mut m = s.serialize_map(Some(self.0.len()))?;
        for &f in &self.0 {
            let (k, v) = FIELDS[f as usize];
            m.serialize_entry(k, &v)?;
        }
        m.end()
    }
}

fn shape_check(fields: &[u8], q: u8, expand: bool) -> Result<Option<bool>, String> {
    let plain_cfg = SerCfg { level: q, indent: false, expand, root: true };
    let ind_cfg = SerCfg { indent: true, ..plain_cfg };
    let v = Shape(fields.to_vec());
    let (Ok(plain), Ok(ind)) = (ser(&v, plain_cfg), ser(&v, ind_cfg)) else { return Ok(None) };
    let (a, b) = (raw_events(plain.as_bytes()), raw_events(ind.as_bytes()));
    if a.is_err() || a != b {
        return Err(format!("indented output {:?} differs from plain {:?} in more than blank text between markup", ind, plain));
    }
    Ok(Some(ind != plain))
}

fn sweep_shapes(ctx: &Ctx, ln: u32, max: u32) {
    let k = FIELDS.len() as u64;
    ctx.layer(
        "serde.field_sequences",
        ln,
        count_upto(k, max),
        json!({"fields": FIELDS.iter().map(|f| format!("{}: {:?}", f.0, f.1)).collect::<Vec<_>>(), "max_fields": max, "variants": "3 quote levels x expand"}),
        |i, acc| {
            let mut d = Vec::new();
            decode_upto(k, max, i, &mut d);
            for q in 0..3u8 {
                for expand in [false, true] {
                    acc.evaluations += 1;
                    acc.traces += 1;
                    acc.transitions += d.len() as u64;
                    match shape_check(&d, q, expand) {
                        Ok(Some(true)) => acc.nt_count += 1,
                        Ok(_) => {}
                        Err(what) => acc.violation(
                            (ln, i),
                            format!("struct with fields [{}] (quote level {}, expand {}): {}", d.iter().map(|&f| format!("{}: {:?}", FIELDS[f as usize].0, FIELDS[f as usize].1)).collect::<Vec<_>>().join(", "), q, expand, what),
                            json!({"kind": "shape", "fields": d, "q": q, "expand": expand}),
                        ),
                    }
                }
            }
        },
    );
}

fn check_sequence(specs: &[Spec], ch: u8, size: usize) -> Result<bool, String> {
    let mut ind = Writer::new_with_indent(Vec::new(), ch, size);
    let mut plain = Writer::new(Vec::new());
    let mut prev_textlike = false;
    for s in specs {
        step(&mut ind, &mut plain, s, prev_textlike, ch)?;
        prev_textlike = is_textlike(s);
    }
    let ind = ind.into_inner();
    let plain = plain.into_inner();
    positional_rule(&plain, &ind, ch).map_err(|m| format!("indented {:?} vs plain {:?}: {}", lossy(&ind), lossy(&plain), m))?;
    // read-back: same events once blank-only texts between markup are dropped; payloads byte-identical
    let a = raw_events(&plain)?;
    let b = raw_events(&ind)?;
    if a != b {
        return Err(format!("indented {:?} reads back differently from plain {:?}", lossy(&ind), lossy(&plain)));
    }
    let ca = drop_blank_texts(read_back(&plain)?);
    let cb = drop_blank_texts(read_back(&ind)?);
    if ca != cb {
        return Err(format!("indented {:?} reads back as {:?}, plain as {:?}", lossy(&ind), cb, ca));
    }
    Ok(ind != plain)
}

pub fn run(ctx: &Ctx) {
    ctx.set_rule(
        "writer, state graph: breadth-first search over clones of the real Writer<Vec<u8>> for indent char in {space, tab} x indent size \
         0..9; transitions = 20 event instances (all ten kinds, incl. empty Text / CDATA and an end-of-document event that ends a path); \
         states merged by a canonical key (the bytes two probe comments produce on a clone + whether the last event was text-like), \
         explored until the indent exceeds 160 characters (past the pre-allocated 128) and through saturation at zero with surplus End \
         events; on EVERY transition the bytes appended by the indenting writer must be [newline indent-char*] + the plain writer's \
         bytes, the bracket being allowed only before markup that does not follow Text/CData. Writer, sequence tree: every sequence of \
         up to 4/5 events (Eof only last), written indented and plain, read back: identical events once blank-only texts are dropped, \
         Text/CData payloads byte-identical. Async: the indenting async writer equals the sync one. Serde: mixed `$value` content with items that write nothing (None, empty nested sequence) between text and element items; every struct shape given by a sequence of up to 4/5 fields out of 16 field kinds ($text, $value holding unit / None / empty sequence / text / element / number / silent `$text` unit variant / mixed list / nested sequences, element fields incl. empty sequences, attribute); every value of the C06 family \
         x quote level x expand x root: raw event streams of indented and plain output equal modulo blank-only text, and both \
         deserialize to the same value. non-trivial = outputs that differ from the plain ones; distinct by construction",
    );
    ctx.assume("merged states have the same futures: Indentation's behaviour depends only on should_line_break and current_indent_len, both revealed by the probe; the indents buffer holds one repeated byte by construction");
    let t = ctx.tier;
    let full = cfg!(feature = "full");
    let seed = ctx.seed;
    // (1) state graph
    let combos: Vec<(u8, usize)> = [b' ', b'\t'].iter().flat_map(|&c| (0..10usize).map(move |s| (c, s))).collect();
    ctx.layer("writer.state_graph", 0, combos.len() as u64, json!({"indent_chars": [" ", "\\t"], "sizes": "0..9", "events": alphabet().len()}), |i, acc| {
        let (ch, size) = combos[i as usize];
        acc.evaluations += 1;
        acc.traces += 1;
        bfs(acc, (0, i), ch, size, 160);
    });
    // (2) sequence tree with read-back
    let alpha = alphabet();
    let k = alpha.len() as u64;
    let n = if full { t.pick(4, 6) } else { 3 };
    ctx.layer("writer.sequences_readback", 1, count_upto(k, n) * 3, json!({"max_len": n, "indents": [[" ", 2], ["\\t", 1], [" ", 0]]}), |i, acc| {
        let (ch, size) = [(b' ', 2usize), (b'\t', 1), (b' ', 0)][(i % 3) as usize];
        let mut d = Vec::new();
        decode_upto(k, n, i / 3, &mut d);
        // Eof only in last position
        if d.iter().rev().skip(1).any(|&x| matches!(alpha[x as usize], Spec::Eof)) {
            return;
        }
        let specs: Vec<Spec> = d.iter().map(|&x| alpha[x as usize].clone()).collect();
        acc.evaluations += 1;
        acc.traces += 1;
        acc.transitions += specs.len() as u64;
        match check_sequence(&specs, ch, size) {
            Ok(differs) => {
                if differs {
                    acc.nt_count += 1;
                }
                acc.sample(seed, i, || json!({"events": specs.iter().map(|s| format!("{:?}", s)).collect::<Vec<_>>(), "indent": [ch as char, size]}));
            }
            Err(what) => acc.violation((1, i), format!("events {:?} indent ({:?},{}): {}", specs, ch as char, size, what), json!({"kind": "sequence", "indices": d, "char": ch, "size": size})),
        }
    });
    // (3) async indenting writer == sync indenting writer
    let n3 = 3u32;
    ctx.layer("writer.async_indent", 2, count_upto(k, n3), json!({"max_len": n3, "indent": [" ", 2]}), |i, acc| {
        let mut d = Vec::new();
        decode_upto(k, n3, i, &mut d);
        let specs: Vec<Spec> = d.iter().map(|&x| alpha[x as usize].clone()).collect();
        acc.evaluations += 1;
        acc.traces += 1;
        let r = guarded_mut(|| -> Result<(), String> {
            let mut s = Writer::new_with_indent(Vec::new(), b' ', 2);
            let mut a = Writer::new_with_indent(ScriptedWrite::new(vec![]), b' ', 2);
            for sp in &specs {
                for e in build(sp) {
                    s.write_event(e.clone()).unwrap();
                    block_on(a.write_event_async(e), 64).ok_or("async write stuck")?.map_err(|e| format!("{:?}", e))?;
                    acc.transitions += 2;
                }
            }
            let (s, a) = (s.into_inner(), a.into_inner().out);
            if s != a {
                return Err(format!("sync indenting writer {:?}, async {:?}", lossy(&s), lossy(&a)));
            }
            Ok(())
        });
        match r {
            Ok(Ok(())) => acc.nt_count += 1,
            Ok(Err(what)) | Err(what) => acc.violation((2, i), format!("events {:?}: {}", specs, what), json!({"kind": "async", "indices": d})),
        }
    });
    // (4) serde
    let level = t.pick(0, 1);
    let mut ln = 3;
    macro_rules! go {
        ($($ty:ident),*) => { $( sweep_serde::<$ty>(ctx, ln, level); ln += 1; )* };
    }
    crate::for_each_type!(go);
    sweep_serde_extra(ctx, ln, t.pick(4, 5));
    sweep_shapes(ctx, ln + 1, t.pick(4, 5));
    // (5) the element builder (ElementWriter) writes through the same indentation state: every sequence of
    // up to 3 builder calls x 7 finishing calls, indented vs plain, under the positional rule
    use crate::props::c09::{element_writer, EFin, EOp};
    let eops = [EOp::Attr(0), EOp::Attr(1), EOp::Attr(2), EOp::Attrs, EOp::NewLine];
    let fins = [EFin::Empty, EFin::Text, EFin::CData, EFin::PI, EFin::Inner(0), EFin::Inner(1), EFin::Inner(2)];
    let indents = [(b' ', 2usize), (b'\t', 1usize), (b' ', 0usize), (b' ', 9usize)];
    let ke = eops.len() as u64;
    ctx.layer("writer.element_builder", ln + 2, count_upto(ke, 3) * 7 * 4, json!({"builder_calls": "<=3 of with_attribute x3, with_attributes, new_line", "finishers": 7, "indents": [[" ", 2], ["\\t", 1], [" ", 0], [" ", 9]]}), |i, acc| {
        let mut d = Vec::new();
        decode_upto(ke, 3, i / 28, &mut d);
        let mut seen = std::collections::HashSet::new();
        if !d.iter().all(|&x| x == 4 || seen.insert(x)) {
            return;
        }
        // `new_line` puts attributes on their own lines *inside* the tag: that is not indentation between markup
        if d.contains(&4) {
            return;
        }
        let pre: Vec<EOp> = d.iter().map(|&x| eops[x as usize]).collect();
        let fin = fins[((i / 4) % 7) as usize];
        let (ch, size) = indents[(i % 4) as usize];
        acc.evaluations += 1;
        acc.traces += 1;
        acc.transitions += 2;
        let (Ok(plain), Ok(ind)) = (element_writer(&pre, fin, None), element_writer(&pre, fin, Some((ch, size)))) else { return };
        match positional_rule(&plain, &ind, ch) {
            Ok(()) => acc.nt_count += 1,
            Err(what) => acc.violation((ln + 2, i), format!("ElementWriter {:?} then {:?}, indent {:?} x{}: indented {:?} vs plain {:?}: {}", pre, fin, ch as char, size, lossy(&ind), lossy(&plain), what), json!({"kind": "element_builder", "pre": d, "fin": (i / 4) % 7, "indent": i % 4})),
        }
    });
}

pub fn replay(case: &Value) -> Result<(), String> {
    let alpha = alphabet();
    if case["kind"].as_str() == Some("element_builder") {
        use crate::props::c09::{element_writer, EFin, EOp};
        let eops = [EOp::Attr(0), EOp::Attr(1), EOp::Attr(2), EOp::Attrs, EOp::NewLine];
        let fins = [EFin::Empty, EFin::Text, EFin::CData, EFin::PI, EFin::Inner(0), EFin::Inner(1), EFin::Inner(2)];
        let indents = [(b' ', 2usize), (b'\t', 1usize), (b' ', 0usize), (b' ', 9usize)];
        let pre: Vec<EOp> = case["pre"].as_array().unwrap().iter().map(|v| eops[v.as_u64().unwrap() as usize]).collect();
        let fin = fins[case["fin"].as_u64().unwrap() as usize];
        let (ch, size) = indents[case["indent"].as_u64().unwrap() as usize];
        let plain = element_writer(&pre, fin, None)?;
        let ind = element_writer(&pre, fin, Some((ch, size)))?;
        println!("plain:    {:?}\nindented: {:?}", lossy(&plain), lossy(&ind));
        return positional_rule(&plain, &ind, ch);
    }
    match case["kind"].as_str().unwrap_or("") {
        "writer" => {
            let ch = case["char"].as_u64().unwrap() as u8;
            let size = case["size"].as_u64().unwrap() as usize;
            let mut hist: Vec<usize> = case["history"].as_array().unwrap().iter().map(|v| v.as_u64().unwrap() as usize).collect();
            hist.push(case["event"].as_u64().unwrap() as usize);
            let specs: Vec<Spec> = hist.iter().map(|&h| alpha[h].clone()).collect();
            println!("indent ({:?},{}) events {:?}", ch as char, size, specs);
            check_sequence(&specs, ch, size).map(|_| ())
        }
        "sequence" | "async" => {
            let specs: Vec<Spec> = case["indices"].as_array().unwrap().iter().map(|v| alpha[v.as_u64().unwrap() as usize].clone()).collect();
            let ch = case["char"].as_u64().unwrap_or(32) as u8;
            let size = case["size"].as_u64().unwrap_or(2) as usize;
            println!("indent ({:?},{}) events {:?}", ch as char, size, specs);
            check_sequence(&specs, ch, size).map(|_| ())
        }
        "shape" => {
            let fields: Vec<u8> = case["fields"].as_array().ok_or("no fields")?.iter().map(|x| x.as_u64().unwrap() as u8).collect();
            let q = case["q"].as_u64().unwrap_or(0) as u8;
            let expand = case["expand"].as_bool().unwrap_or(false);
            println!("fields {:?}", fields.iter().map(|&f| FIELDS[f as usize]).collect::<Vec<_>>());
            shape_check(&fields, q, expand).map(|_| ())
        }
        "serde_extra" => Err("re-run ./check C19 quick: the serde.mixed_with_silent_items layer reproduces it".into()),
        _ => {
            let name = case["type"].as_str().ok_or("no type")?;
            let mut result = Err(format!("unknown type {}", name));
            macro_rules! go {
                ($($t:ident),*) => { $( if name == <$t as Fam>::NAME {
                    let v = &<$t as Fam>::values(case["level"].as_u64().unwrap_or(0) as usize)[case["index"].as_u64().unwrap() as usize];
                    let ic = SerCfg::from_index(case["cfg"].as_u64().unwrap());
                    let pc = SerCfg { indent: false, ..ic };
                    let (p, i) = (ser(v, pc), ser(v, ic));
                    println!("value {:?}\nplain    {:?}\nindented {:?}", v, p, i);
                    result = match (p, i) {
                        (Ok(p), Ok(i)) => if raw_events(p.as_bytes()) == raw_events(i.as_bytes()) { Ok(()) } else { Err("event streams differ".into()) },
                        _ => Ok(()),
                    };
                } )* };
            }
            crate::for_each_type!(go);
            result
        }
    }
}
