//! C10 — Escaping is safe and unescaping is its exact inverse.
//!
//! Exhaustive enumeration of (a) every string up to a length bound over an alphabet of the
//! escaping-relevant characters, (b) every character reference of every code point in three
//! radix spellings with leading zeros, (c) every `&name;` over the letters of the five predefined
//! names, (d) malformed references. Oracle: an independent reference un-escaper (whole-string,
//! char-by-char scan) plus the algebraic laws of the property.

use crate::common::*;
use quick_xml::escape::{escape, minimal_escape, partial_escape, unescape, unescape_with};
use serde_json::{json, Value};
use std::borrow::Cow;

/// Reference: `Ok(unescaped)` or `Err(())`.
pub fn ref_unescape(s: &str) -> Result<String, ()> {
    let mut out = String::new();
    let mut rest = s;
    while let Some(p) = rest.find('&') {
        out.push_str(&rest[..p]);
        let after = &rest[p + 1..];
        let semi = after.find(';').ok_or(())?;
        let body = &after[..semi];
        if body.contains('&') {
            return Err(());
        }
        out.push(ref_entity(body)?);
        rest = &after[semi + 1..];
    }
    out.push_str(rest);
    Ok(out)
}

fn ref_entity(body: &str) -> Result<char, ()> {
    match body {
        "lt" => return Ok('<'),
        "gt" => return Ok('>'),
        "amp" => return Ok('&'),
        "apos" => return Ok('\''),
        "quot" => return Ok('"'),
        _ => {}
    }
    let num = body.strip_prefix('#').ok_or(())?;
    let (digits, radix) = match num.strip_prefix('x') {
        Some(h) => (h, 16u64),
        None => (num, 10u64),
    };
    if digits.is_empty() {
        return Err(());
    }
    let mut v: u64 = 0;
    for c in digits.chars() {
        let d = c.to_digit(radix as u32).ok_or(())? as u64;
        v = v * radix + d;
        if v > 0xFFFF_FFFF_FFFF {
            return Err(());
        }
    }
    if v == 0 || v > 0x10FFFF {
        return Err(());
    }
    char::from_u32(v as u32).ok_or(())
}

fn forbidden(level: u8) -> &'static [u8] {
    match level {
        0 => b"<>&'\"",
        1 => b"<>&",
        _ => b"<&",
    }
}

fn esc(level: u8, s: &str) -> Cow<'_, str> {
    match level {
        0 => escape(s),
        1 => partial_escape(s),
        _ => minimal_escape(s),
    }
}

/// Checks one string; returns a description of the first broken law.
pub fn check_string(s: &str, acc: Option<&mut Acc>) -> Result<(), String> {
    check_string2(s, acc, false)
}

pub fn check_string2(s: &str, acc: Option<&mut Acc>, in_strings_layer: bool) -> Result<(), String> {
    let mut sig: u64 = 0;
    for level in 0..3u8 {
        let r = guarded(|| {
            let e = esc(level, s);
            let borrowed = matches!(e, Cow::Borrowed(_));
            let e = e.into_owned();
            let u = unescape(&e).map(|c| c.into_owned());
            (e, borrowed, u)
        });
        let (e, borrowed, u) = match r {
            Ok(x) => x,
            Err(p) => return Err(format!("panic in escape level {}: {}", level, p)),
        };
        // `&` is the only forbidden byte that the escaped form itself introduces; it must only
        // occur as the start of one of the five references.
        let mut rest = e.as_str();
        while let Some(p) = rest.find(|c: char| forbidden(level).contains(&(c as u32 as u8)) && (c as u32) < 128) {
            let tail = &rest[p..];
            let ok = ["&lt;", "&gt;", "&amp;", "&apos;", "&quot;"]
                .iter()
                .find(|r| tail.starts_with(**r));
            match ok {
                Some(r) => rest = &tail[r.len()..],
                None => {
                    return Err(format!(
                        "escape level {} left a forbidden character in {:?}",
                        level, e
                    ))
                }
            }
        }
        match u {
            Ok(ref back) if back == s => {}
            other => {
                return Err(format!(
                    "unescape(escape_{}(s)) = {:?}, expected Ok({:?}); escaped form {:?}",
                    level, other, s, e
                ))
            }
        }
        // the owned entry (String / Cow::Owned) must give the same escaped form as the borrowed one
        let owned = guarded(|| match level {
            0 => escape(s.to_string()).into_owned(),
            1 => partial_escape(std::borrow::Cow::<str>::Owned(s.to_string())).into_owned(),
            _ => minimal_escape(s.to_string()).into_owned(),
        });
        match owned {
            Ok(o) if o == e => {}
            other => return Err(format!("escape level {} of the owned string gives {:?}, of the borrowed string {:?}", level, other, e)),
        }
        let needs = s.bytes().any(|b| forbidden(level).contains(&b));
        if !needs && (!borrowed || e != s) {
            return Err(format!(
                "escape level {} of a string without special characters is not the borrowed input",
                level
            ));
        }
        if needs && e == s {
            return Err(format!("escape level {} did not change {:?}", level, s));
        }
        sig = sig.wrapping_mul(31).wrapping_add(e.len() as u64 - s.len() as u64);
    }
    // unescape of the raw string against the reference
    let r = guarded(|| {
        let u = unescape(s);
        let borrowed = matches!(u, Ok(Cow::Borrowed(_)));
        (u.map(|c| c.into_owned()).map_err(|e| format!("{:?}", e)), borrowed)
    });
    let (u, borrowed) = match r {
        Ok(x) => x,
        Err(p) => return Err(format!("panic in unescape: {}", p)),
    };
    let expect = ref_unescape(s);
    match (&u, &expect) {
        (Ok(a), Ok(b)) if a == b => {}
        (Err(_), Err(())) => {}
        _ => {
            return Err(format!(
                "unescape({:?}) = {:?}, reference says {:?}",
                s, u, expect
            ))
        }
    }
    if !s.contains('&') && !(borrowed && u.as_deref() == Ok(s)) {
        return Err(format!(
            "unescape of a string without '&' is not the borrowed input: {:?}",
            u
        ));
    }
    // unescape_with and a custom resolver: the custom entity is used, predefined ones are not
    // resolved by the custom resolver => error for names, numeric references still work.
    let r2 = guarded(|| {
        unescape_with(s, |_| None)
            .map(|c| c.into_owned())
            .map_err(|e| format!("{:?}", e))
    });
    match r2 {
        Err(p) => return Err(format!("panic in unescape_with: {}", p)),
        Ok(Ok(v)) => {
            // with no named entity resolvable, success implies the reference also succeeds with the same value
            if expect.as_ref() != Ok(&v) {
                return Err(format!(
                    "unescape_with(no entities)({:?}) = Ok({:?}), reference {:?}",
                    s, v, expect
                ));
            }
        }
        Ok(Err(_)) => {}
    }
    if let Some(acc) = acc {
        let class = match &u {
            Ok(v) => (0u8, s.len() as i64 - v.len() as i64),
            Err(e) => (
                1 + (e.as_bytes().get(2).copied().unwrap_or(0) % 7),
                s.matches('&').count() as i64,
            ),
        };
        acc.state(h64(&(class, sig)));
        if s.contains('&') || sig != 0 {
            // layer (a) enumerates distinct strings; the other layers only count strings that
            // layer (a) cannot produce
            if s.chars().all(|c| ALPHA.iter().any(|a| a.chars().next() == Some(c))) {
                if in_strings_layer {
                    acc.nt_count += 1;
                }
            } else {
                acc.nontrivial(h64(s));
            }
        }
    }
    Ok(())
}

const ALPHA: [&str; 13] = [
    "&", "<", ">", "'", "\"", "#", "x", ";", "0", "1", "a", "é", " ",
];
const NAME_ALPHA: [&str; 11] = ["a", "m", "p", "o", "s", "l", "t", "g", "q", "u", "A"];
/// bodies of numeric references: digits, both radix markers, signs, hex letters, separators
const NUM_ALPHA: [&str; 12] = ["0", "1", "4", "9", "x", "X", "+", "-", "a", "F", "_", " "];

fn build(alpha: &[&str], digits: &[u8], out: &mut String) {
    out.clear();
    for &d in digits {
        out.push_str(alpha[d as usize]);
    }
}

pub fn run(ctx: &Ctx) {
    ctx.set_rule(
        "strings: every string up to the length bound over the 13-symbol alphabet \
         {& < > ' \" # x ; 0 1 a é space}; references: every code point 0..=0x11000F plus 2^32-1, 2^32 (and every scalar value escaped alone, as a{c}< and as &{c} + double quote) \
         in decimal / lower hex / upper hex with 0-2 leading zeros; names: &w; for every w up to 5 letters over \
         the letters of the five predefined names, and every upper/lower-case variant of the five names; numeric bodies: \
         &#w; for every w up to 5/6 symbols over {0 1 4 9 x X + - a F _ space}. non-trivial = the string contains '&' or a character \
         some level must escape; distinct = distinct strings. states = distinct outcome signatures \
         (Ok/Err class, length deltas of the three escaped forms)",
    );
    ctx.assume("escape-html feature not built (it only swaps the entity table)");
    let max_len: u32 = std::env::var("QXMC_C10_LEN")
        .ok()
        .and_then(|s| s.parse().ok())
        .unwrap_or(ctx.tier.pick(7, 8));
    let k = ALPHA.len() as u64;
    let seed = ctx.seed;

    // (a) all strings
    let total = count_upto(k, max_len);
    ctx.layer(
        "strings",
        0,
        total,
        json!({"alphabet": ALPHA, "max_len": max_len}),
        |i, acc| {
            let mut digits = Vec::new();
            decode_upto(k, max_len, i, &mut digits);
            let mut s = String::new();
            build(&ALPHA, &digits, &mut s);
            acc.evaluations += 1;
            acc.transitions += 8;
            acc.traces += 1;
            if let Err(what) = check_string2(&s, Some(acc), true) {
                acc.violation((0, i), what, json!({"kind": "string", "s": s}));
            }
            acc.sample(seed, i, || json!({"kind":"string","s": s}));
        },
    );

    // (b) all code points, nine spellings
    let cps: u64 = 0x110010 + 2;
    ctx.layer(
        "charrefs",
        1,
        cps,
        json!({"spellings": 9, "codepoints": "0..=0x11000F, 2^32-1, 2^32"}),
        |i, acc| {
            let cp: u64 = if i < 0x110010 {
                i
            } else if i == 0x110010 {
                0xFFFF_FFFF
            } else {
                0x1_0000_0000
            };
            for z in 0..3 {
                let zeros = &"00"[..z];
                for (r, body) in [
                    format!("#{}{}", zeros, cp),
                    format!("#x{}{:x}", zeros, cp),
                    format!("#x{}{:X}", zeros, cp),
                ]
                .iter()
                .enumerate()
                {
                    let s = format!("&{};", body);
                    acc.evaluations += 1;
                    acc.transitions += 1;
                    acc.traces += 1;
                    let expect = if cp != 0 && cp <= 0x10FFFF {
                        char::from_u32(cp as u32)
                    } else {
                        None
                    };
                    let got = guarded(|| unescape(&s).map(|c| c.into_owned()));
                    let ok = match (&got, expect) {
                        (Ok(Ok(v)), Some(c)) => {
                            let mut b = [0u8; 4];
                            v == c.encode_utf8(&mut b)
                        }
                        (Ok(Err(_)), None) => true,
                        _ => false,
                    };
                    if !ok {
                        acc.violation(
                            (1, i * 9 + (z * 3 + r) as u64),
                            format!("unescape({:?}) = {:?}, expected {:?}", s, got, expect),
                            json!({"kind": "string", "s": s}),
                        );
                    }
                    if expect.is_some()
                        && !s.chars().all(|c| ALPHA.iter().any(|a| a.chars().next() == Some(c)))
                    {
                        acc.nontrivial(h64(&s));
                    }
                    acc.state(h64(&(
                        expect.map(|c| c.len_utf8()),
                        z,
                        r,
                        cp > 0x10FFFF,
                        (0xD800..0xE000).contains(&cp),
                    )));
                }
            }
            // the escaping half on the same domain: every scalar value, alone and between an
            // ordinary and a special character (escaped form free of forbidden characters,
            // unescape inverts it, borrowed when nothing needs escaping)
            if let Some(c) = u32::try_from(cp).ok().and_then(char::from_u32) {
                for s in [c.to_string(), format!("a{}<", c), format!("&{}\"", c)] {
                    acc.evaluations += 1;
                    acc.traces += 1;
                    if let Err(what) = check_string2(&s, None, false) {
                        acc.violation((1, i * 9), what, json!({"kind": "string", "s": s}));
                    }
                }
            }
            if i % 4099 == 0 {
                acc.sample(seed, i ^ 0x5555, || json!({"kind":"charref","codepoint": cp}));
            }
        },
    );

    // (c) names
    let nk = NAME_ALPHA.len() as u64;
    let total = count_upto(nk, 5);
    ctx.layer(
        "names",
        2,
        total,
        json!({"alphabet": NAME_ALPHA, "max_len": 5, "contexts": ["&w;", "x&w;y", "&w", "&w;&w;"]}),
        |i, acc| {
            let mut digits = Vec::new();
            decode_upto(nk, 5, i, &mut digits);
            let mut w = String::new();
            build(&NAME_ALPHA, &digits, &mut w);
            for s in [
                format!("&{};", w),
                format!("x&{};y", w),
                format!("&{}", w),
                format!("&{};&{};", w, w),
                format!("& {};", w),
                format!("&{} ;", w),
            ] {
                acc.evaluations += 1;
                acc.transitions += 8;
                acc.traces += 1;
                if let Err(what) = check_string(&s, Some(acc)) {
                    acc.violation((2, i), what, json!({"kind": "string", "s": s}));
                }
            }
        },
    );

    // (c2) every case variant of the five predefined names (only the all-lowercase one is a name)
    let five = ["lt", "gt", "amp", "apos", "quot"];
    ctx.layer("name_case_variants", 4, five.len() as u64 * 16, json!({"names": five}), |i, acc| {
        let name = five[(i / 16) as usize];
        let mask = i % 16;
        if mask >> name.len() != 0 {
            return;
        }
        let w: String = name
            .chars()
            .enumerate()
            .map(|(k, c)| if mask & (1 << k) != 0 { c.to_ascii_uppercase() } else { c })
            .collect();
        for s in [format!("&{};", w), format!("a&{};b", w), format!("&{};&amp;", w)] {
            acc.evaluations += 1;
            acc.transitions += 8;
            acc.traces += 1;
            if let Err(what) = check_string(&s, Some(acc)) {
                acc.violation((4, i), what, json!({"kind": "string", "s": s}));
            }
        }
    });

    // (c3) every body of a numeric reference over digits / radix markers / signs / separators
    let qk = NUM_ALPHA.len() as u64;
    let qlen = ctx.tier.pick(5, 6);
    ctx.layer(
        "numeric_bodies",
        5,
        count_upto(qk, qlen),
        json!({"alphabet": NUM_ALPHA, "max_len": qlen, "contexts": ["&#w;", "x&#w;y"]}),
        |i, acc| {
            let mut digits = Vec::new();
            decode_upto(qk, qlen, i, &mut digits);
            let mut w = String::new();
            build(&NUM_ALPHA, &digits, &mut w);
            for s in [format!("&#{};", w), format!("x&#{};y", w)] {
                acc.evaluations += 1;
                acc.transitions += 8;
                acc.traces += 1;
                if let Err(what) = check_string(&s, Some(acc)) {
                    acc.violation((5, i), what, json!({"kind": "string", "s": s}));
                }
            }
            if i % 9973 == 0 {
                acc.sample(seed, i ^ 0x3333, || json!({"kind":"string","s": format!("&#{};", w)}));
            }
        },
    );

    // (c4) unescape_with and a custom resolver: only the callback decides about names; its result is
    // inserted verbatim (no second expansion), numeric references do not go through it
    let ra: [&str; 7] = ["&", "a", "b", ";", "#", "1", "x"];
    let rk = ra.len() as u64;
    let rlen = ctx.tier.pick(6, 7);
    ctx.layer("custom_resolver", 6, count_upto(rk, rlen), json!({"alphabet": ra, "max_len": rlen, "resolvers": [{"a": "X&a;Y", "b": "", "ab": "<"}, "catch-all: every name, also #-names, gets an answer"]}), |i, acc| {
        let mut digits = Vec::new();
        decode_upto(rk, rlen, i, &mut digits);
        let mut s = String::new();
        build(&ra, &digits, &mut s);
        // two callbacks: a small table, and a catch-all that answers every name — also names that start
        // with `#`, which it must never be asked to decide (character references are the library's business)
        let table = |n: &str| -> Option<&'static str> {
            match n {
                "a" => Some("X&a;Y"),
                "b" => Some(""),
                "ab" => Some("<"),
                _ => None,
            }
        };
        let catch_all = |n: &str| -> Option<&'static str> { Some(if n.starts_with('#') { "HASH" } else { "\u{FFFD}" }) };
        for which in 0..2 {
            let resolve: &dyn Fn(&str) -> Option<&'static str> = if which == 0 { &table } else { &catch_all };
            acc.evaluations += 1;
            acc.transitions += 1;
            acc.traces += 1;
            // reference: same scan as ref_unescape with the custom table
            let expect: Result<String, ()> = (|| {
                let mut out = String::new();
                let mut rest = s.as_str();
                while let Some(p) = rest.find('&') {
                    out.push_str(&rest[..p]);
                    let after = &rest[p + 1..];
                    let semi = after.find(';').ok_or(())?;
                    let body = &after[..semi];
                    if body.contains('&') {
                        return Err(());
                    }
                    if body.starts_with('#') {
                        out.push(ref_entity(body)?);
                    } else {
                        out.push_str(resolve(body).ok_or(())?);
                    }
                    rest = &after[semi + 1..];
                }
                out.push_str(rest);
                Ok(out)
            })();
            let got = guarded_mut(|| unescape_with(&s, |n| resolve(n)).map(|c| c.into_owned()).map_err(|e| format!("{:?}", e)));
            let ok = match (&got, &expect) {
                (Ok(Ok(a)), Ok(b)) => a == b,
                (Ok(Err(_)), Err(())) => true,
                _ => false,
            };
            if !ok {
                acc.violation((6, i), format!("unescape_with({})({:?}) = {:?}, reference says {:?}", if which == 0 { "custom table" } else { "catch-all resolver" }, s, got, expect), json!({"kind": "string", "s": s}));
            } else if s.contains('&') {
                acc.nontrivial(h64(&("custom", which, &s)));
            }
        }
    });

    // (d) malformations around 20 values
    let values: [u32; 20] = [
        0, 1, 9, 10, 13, 32, 38, 60, 65, 127, 128, 255, 0x7FF, 0x800, 0xD7FF, 0xD800, 0xDFFF,
        0xE000, 0x10FFFF, 0x110000,
    ];
    let decor: Vec<Box<dyn Fn(u32) -> String + Sync>> = vec![
        Box::new(|v| format!("&#+{};", v)),
        Box::new(|v| format!("&#-{};", v)),
        Box::new(|v| format!("&#x+{:x};", v)),
        Box::new(|v| format!("&#x-{:x};", v)),
        Box::new(|v| format!("&#X{:x};", v)),
        Box::new(|v| format!("&# {};", v)),
        Box::new(|v| format!("&#{} ;", v)),
        Box::new(|v| format!("&#{}_;", v)),
        Box::new(|v| format!("&#_{};", v)),
        Box::new(|v| format!("&#0x{:x};", v)),
        Box::new(|v| format!("&#x0x{:x};", v)),
        Box::new(|v| format!("&#{}", v)),
        Box::new(|v| format!("&#x{:x}", v)),
        Box::new(|v| format!("&#{};;", v)),
        Box::new(|v| format!("&&#{};", v)),
        Box::new(|v| format!("&#{}&;", v)),
        Box::new(|v| format!("&#{}.0;", v)),
        Box::new(|v| format!("&#{:x}h;", v)),
        Box::new(|v| format!("&#x{:x}g;", v)),
        Box::new(|v| format!("&#\u{0663}{};", v)),
        Box::new(|v| format!("&#x\u{ff21}{:x};", v)),
        Box::new(|_| "&#;".to_string()),
        Box::new(|_| "&#x;".to_string()),
        Box::new(|_| "&;".to_string()),
        Box::new(|_| "&".to_string()),
        Box::new(|v| format!("&#{};&#x{:x};", v, v)),
        Box::new(|v| format!("a&#{};b&#x{:X};c", v, v)),
    ];
    let nd = decor.len() as u64;
    ctx.layer(
        "malformed",
        3,
        values.len() as u64 * nd,
        json!({"values": values.len(), "decorations": nd}),
        |i, acc| {
            let v = values[(i / nd) as usize];
            let s = decor[(i % nd) as usize](v);
            acc.evaluations += 1;
            acc.transitions += 8;
            acc.traces += 1;
            if let Err(what) = check_string(&s, Some(acc)) {
                acc.violation((3, i), what, json!({"kind": "string", "s": s}));
            }
            if i % 37 == 0 {
                acc.sample(seed, i ^ 0x7777, || json!({"kind":"string","s": s}));
            }
        },
    );

    // (h) long numeric bodies (size thresholds of the digit accumulation): every number of leading
    // zeros 0..=Z in front of every significant-digit string of the pool, in both radices, alone and
    // embedded. The pool has the boundary values and, for every k, 1·0^k·41 (the values that come out
    // as 'A' when high digits are dropped) and the values that wrap to 'A' modulo 2^8..2^128.
    let zmax = ctx.tier.pick(40u64, 130);
    let mut pool: Vec<String> = ["1", "9", "41", "65", "a", "A", "7f", "80", "ff", "100", "d7ff", "D800", "dfff", "e000", "fffd", "ffff", "10000", "10ffff", "10FFFF", "110000", "1114111", "1114112", "7fffffff", "80000000", "ffffffff", "100000000", "4294967295", "4294967296", "ffffffffffffffff", "10000000000000000", "18446744073709551615", "18446744073709551616"]
        .iter()
        .map(|s| s.to_string())
        .collect();
    for k in 0..=zmax as usize {
        pool.push(format!("1{}41", "0".repeat(k)));
        pool.push(format!("1{}65", "0".repeat(k)));
        pool.push("9".repeat(k + 1));
        pool.push("f".repeat(k + 1));
    }
    for bits in [8u32, 16, 31, 32, 63, 64, 127] {
        let w: u128 = (1u128 << bits) + 65;
        pool.push(format!("{}", w));
        pool.push(format!("{:x}", w));
        if bits < 126 { pool.push(format!("{}", (1u128 << bits) * 3 + 0x10FFFF)); }
    }
    pool.push(format!("{}", u128::MAX));
    pool.push(format!("{:x}", u128::MAX));
    pool.push("340282366920938463463374607431768211521".into()); // 2^128 + 65
    pool.push("100000000000000000000000000000041".into()); // 16^32 + 0x41
    let np = pool.len() as u64;
    ctx.layer(
        "long_numeric",
        7,
        np * (zmax + 1) * 2,
        json!({"significant_digit_strings": np, "leading_zeros": format!("0..={}", zmax), "radices": ["#", "#x"], "embedding": ["alone", "a<ref>b<ref>"]}),
        |i, acc| {
            let radix = i % 2;
            let z = (i / 2) % (zmax + 1);
            let d = &pool[(i / 2 / (zmax + 1)) as usize];
            let r = format!("&#{}{}{};", if radix == 1 { "x" } else { "" }, "0".repeat(z as usize), d);
            for s in [r.clone(), format!("a{}b{}", r, r)] {
                acc.evaluations += 1;
                acc.transitions += 8;
                acc.traces += 1;
                if let Err(what) = check_string(&s, Some(acc)) {
                    acc.violation((7, i), what, json!({"kind": "string", "s": s}));
                }
            }
            if i % 101 == 0 {
                acc.sample(seed, i ^ 0x9999, || json!({"kind":"string","s": r}));
            }
        },
    );

    // (i) alignment (size thresholds of the scanners): one or two special items at every position of
    // a string of every length up to the bound, for several fillers (bytes below and above every
    // special character, multi-byte, blank, NUL)
    let fillers: [&str; 7] = ["a", "z", "0", "\u{e9}", " ", "\u{0}", "?"];
    let items: [&str; 12] = ["&", "<", ">", "'", "\"", "&lt;", "&gt;", "&amp;", "&#60;", "&#x3E;", "&apos;", ";"];
    let n1 = ctx.tier.pick(72u64, 300);
    let n2 = ctx.tier.pick(34u64, 72);
    let ni = items.len() as u64;
    let nfl = fillers.len() as u64;
    ctx.layer(
        "alignment.single",
        8,
        nfl * ni * (n1 + 1) * (n1 + 1),
        json!({"fillers": fillers, "items": items, "shape": "filler^p . item . filler^q, all p,q <= bound", "bound": n1}),
        |i0, acc| {
            let mut i = i0;
            let q = i % (n1 + 1);
            i /= n1 + 1;
            let p = i % (n1 + 1);
            i /= n1 + 1;
            let it = items[(i % ni) as usize];
            let f = fillers[(i / ni) as usize];
            let s = format!("{}{}{}", f.repeat(p as usize), it, f.repeat(q as usize));
            acc.evaluations += 1;
            acc.transitions += 8;
            acc.traces += 1;
            if let Err(what) = check_string(&s, Some(acc)) {
                acc.violation((8, i0), what, json!({"kind": "string", "s": s}));
            }
        },
    );
    ctx.layer(
        "alignment.pair",
        9,
        3 * ni * ni * (n2 + 1) * (n2 + 1),
        json!({"fillers": &fillers[..3], "items": items, "shape": "filler^p . item1 . filler^q . item2 . filler^3, all p,q <= bound", "bound": n2}),
        |i0, acc| {
            let mut i = i0;
            let q = i % (n2 + 1);
            i /= n2 + 1;
            let p = i % (n2 + 1);
            i /= n2 + 1;
            let i2 = items[(i % ni) as usize];
            i /= ni;
            let i1 = items[(i % ni) as usize];
            let f = fillers[(i / ni) as usize];
            let s = format!("{}{}{}{}{}", f.repeat(p as usize), i1, f.repeat(q as usize), i2, f.repeat(3));
            acc.evaluations += 1;
            acc.transitions += 8;
            acc.traces += 1;
            if let Err(what) = check_string(&s, Some(acc)) {
                acc.violation((9, i0), what, json!({"kind": "string", "s": s}));
            }
        },
    );
}

pub fn replay(case: &Value) -> Result<(), String> {
    let s = case
        .get("s")
        .and_then(|s| s.as_str())
        .ok_or("case has no string")?;
    println!("input: {:?}", s);
    println!("escape:          {:?}", escape(s));
    println!("partial_escape:  {:?}", partial_escape(s));
    println!("minimal_escape:  {:?}", minimal_escape(s));
    println!("unescape:        {:?}", unescape(s));
    println!("reference:       {:?}", ref_unescape(s));
    check_string(s, None)
}
