//! C12 — Skipping an element consumes exactly that element and reports its inner span.
//!
//! For every Start event of every generated well-formed document (and of every truncation of it)
//! the reader is advanced to that event, then read_to_end / read_text / read_to_end_into /
//! read_to_end_into_async is called; span, following events and configuration are compared with
//! what the token structure of the document prescribes.

use crate::common::*;
use crate::env::*;
use crate::trace::*;
use quick_xml::events::Event;
use quick_xml::name::QName;
use quick_xml::reader::{NsReader, Reader};
use serde_json::{json, Value};

const TOKENS: [&[u8]; 18] = [
    b"<a>", b"</a>", b"</a >", b"<a/>", b"<b>", b"</b>", b"<b/>", b"t", b" ", b"<!--</a>-->", b"<![CDATA[</a>]]>",
    // opaque content for the namespace layer only (index >= MAIN_TOKENS): declarations a resolver would reject or act on
    b"<c xmlns:xml='urn:x'/>", b"<c xmlns:xmlns='u'>t</c>", b"<c xmlns:p='http://www.w3.org/XML/1998/namespace'/>", b"<c xmlns:p='http://www.w3.org/2000/xmlns/'/>",
    b"<c xmlns='' xmlns:q=''/>", b"<p:c q:x='1'/>", b"<c xmlns:xml='http://www.w3.org/XML/1998/namespace' xml:lang='en'/>",
];
/// the tokens the document enumeration ranges over
const MAIN_TOKENS: u64 = 11;

#[derive(Clone, Copy, PartialEq, Eq, Debug)]
enum TK {
    Start(u8),
    End(u8),
    Empty(u8),
    Other,
}

fn tk(t: usize) -> TK {
    match t {
        0 => TK::Start(b'a'),
        1 | 2 => TK::End(b'a'),
        3 => TK::Empty(b'a'),
        4 => TK::Start(b'b'),
        5 => TK::End(b'b'),
        6 => TK::Empty(b'b'),
        _ => TK::Other,
    }
}

/// Token structure of a document: byte offsets and, per start token, its matching end token.
struct Doc {
    toks: Vec<u8>,
    bytes: Vec<u8>,
    /// start offset of each token, plus total length at the end
    off: Vec<usize>,
}

impl Doc {
    fn new(toks: &[u8]) -> Doc {
        let mut bytes = Vec::new();
        let mut off = Vec::new();
        for &t in toks {
            off.push(bytes.len());
            bytes.extend_from_slice(TOKENS[t as usize]);
        }
        off.push(bytes.len());
        Doc { toks: toks.to_vec(), bytes, off }
    }
    fn well_formed(&self) -> bool {
        let mut stack = Vec::new();
        for &t in &self.toks {
            match tk(t as usize) {
                TK::Start(n) => stack.push(n),
                TK::End(n) => {
                    if stack.pop() != Some(n) {
                        return false;
                    }
                }
                _ => {}
            }
        }
        stack.is_empty()
    }
    /// Index of the end token closing start token `i` among the tokens that lie completely
    /// inside the first `len` bytes (same-name depth counting, as the documentation describes).
    fn matching_end(&self, i: usize, len: usize) -> Option<usize> {
        let TK::Start(n) = tk(self.toks[i] as usize) else { return None };
        let mut depth = 0;
        for j in i + 1..self.toks.len() {
            if self.off[j + 1] > len {
                return None;
            }
            match tk(self.toks[j] as usize) {
                TK::Start(m) if m == n => depth += 1,
                TK::End(m) if m == n => {
                    if depth == 0 {
                        return Some(j);
                    }
                    depth -= 1;
                }
                _ => {}
            }
        }
        None
    }
}

#[derive(Clone, Copy, PartialEq, Eq, Debug)]
enum Op {
    ReadToEnd,
    ReadText,
    Into(usize),
    /// like `Into`, but the consumer never clears the buffer it hands in (legal: clearing only saves memory)
    IntoKeep(usize),
    Async(usize, Option<usize>),
    /// read_to_end_into over pieces of the given size with a fault at the given refill call: Interrupted (false) / hard error (true)
    IntoFault(usize, usize, bool),
}

struct Out {
    /// Ok(span) or Err(description)
    result: Result<(u64, u64), String>,
    text: Option<String>,
    cfg_before: u8,
    cfg_after: u8,
    rest: Vec<Obs>,
    found: bool,
    fill_calls: usize,
}

fn name_of(n: u8) -> [u8; 1] {
    [n]
}

/// Fresh reader, advance to the Start event that ends at `start_end`, run `op`, read the rest.
fn run_op(input: &[u8], cfg: u8, start_end: u64, name: u8, op: Op, ns: bool) -> Result<Out, String> {
    let nm = name_of(name);
    let r = guarded_mut(|| -> Out {
        let mut out = Out { result: Err("not run".into()), text: None, cfg_before: 0, cfg_after: 0, rest: Vec::new(), found: false, fill_calls: 0 };
        let cap = 2 * input.len() + 8;
        macro_rules! rest {
            ($reader:ident, $read:expr) => {{
                for _ in 0..cap {
                    let r = $read;
                    let Some(r) = r else { break };
                    let ev = Ev::from_result(&r);
                    drop(r);
                    let stop = ev == Ev::Eof;
                    out.rest.push(Obs { ev, pos: $reader.buffer_position(), err_pos: $reader.error_position() });
                    if stop {
                        break;
                    }
                }
            }};
        }
        macro_rules! arms {
            ($ctor:path) => {
        match op {
            Op::ReadToEnd | Op::ReadText => {
                let mut reader = $ctor(input);
                apply_cfg(reader.config_mut(), cfg);
                for _ in 0..cap {
                    match reader.read_event() {
                        Ok(Event::Start(_)) if reader.buffer_position() == start_end => {
                            out.found = true;
                            break;
                        }
                        Ok(Event::Eof) | Err(quick_xml::Error::Syntax(_)) => break,
                        _ => {}
                    }
                }
                if !out.found {
                    return out;
                }
                out.cfg_before = cfg_bits(reader.config());
                if op == Op::ReadToEnd {
                    out.result = reader.read_to_end(QName(&nm)).map(|s| (s.start, s.end)).map_err(|e| format!("{:?}", e));
                } else {
                    let before = reader.buffer_position();
                    match reader.read_text(QName(&nm)) {
                        Ok(t) => {
                            out.result = Ok((before, before + t.len() as u64));
                            out.text = Some(t.into_owned());
                        }
                        Err(e) => out.result = Err(format!("{:?}", e)),
                    }
                }
                out.cfg_after = cfg_bits(reader.config());
                rest!(reader, Some(reader.read_event()));
            }
            Op::Into(_) | Op::IntoKeep(_) | Op::IntoFault(..) => {
                let keep = matches!(op, Op::IntoKeep(_));
                let script = match op {
                    Op::Into(piece) | Op::IntoKeep(piece) => Script::pieces(piece),
                    Op::IntoFault(piece, at, hard) => {
                        let mut s = Script::pieces(piece);
                        s.faults.push((at, if hard { Fault::Hard(std::io::ErrorKind::Other) } else { Fault::Interrupted }));
                        s
                    }
                    _ => unreachable!(),
                };
                let mut reader = $ctor(Source::new(input, &script));
                apply_cfg(reader.config_mut(), cfg);
                let mut buf = Vec::new();
                for _ in 0..cap {
                    if !keep { buf.clear(); }
                    match reader.read_event_into(&mut buf) {
                        Ok(Event::Start(_)) if reader.buffer_position() == start_end => {
                            out.found = true;
                            break;
                        }
                        Ok(Event::Eof) | Err(quick_xml::Error::Syntax(_)) => break,
                        _ => {}
                    }
                }
                if !out.found {
                    return out;
                }
                out.cfg_before = cfg_bits(reader.config());
                if !keep { buf.clear(); }
                out.result = reader.read_to_end_into(QName(&nm), &mut buf).map(|s| (s.start, s.end)).map_err(|e| format!("{:?}", e));
                out.cfg_after = cfg_bits(reader.config());
                rest!(reader, { if !keep { buf.clear(); } Some(reader.read_event_into(&mut buf)) });
                out.fill_calls = reader.get_ref().calls;
            }
            Op::Async(piece, pending) => {
                let mut script = Script::pieces(piece);
                if let Some(p) = pending {
                    script.faults.push((p, Fault::Pending));
                }
                let horizon = input.len() + 16;
                let mut reader = $ctor(Source::new(input, &script));
                apply_cfg(reader.config_mut(), cfg);
                let mut buf = Vec::new();
                for _ in 0..cap {
                    buf.clear();
                    match block_on(reader.read_event_into_async(&mut buf), horizon) {
                        Some(Ok(Event::Start(_))) if reader.buffer_position() == start_end => {
                            out.found = true;
                            break;
                        }
                        Some(Ok(Event::Eof)) | Some(Err(quick_xml::Error::Syntax(_))) | None => break,
                        _ => {}
                    }
                }
                if !out.found {
                    return out;
                }
                out.cfg_before = cfg_bits(reader.config());
                buf.clear();
                out.result = match block_on(reader.read_to_end_into_async(QName(&nm), &mut buf), 4 * horizon) {
                    Some(r) => r.map(|s| (s.start, s.end)).map_err(|e| format!("{:?}", e)),
                    None => Err("STUCK".into()),
                };
                out.cfg_after = cfg_bits(reader.config());
                rest!(reader, { buf.clear(); block_on(reader.read_event_into_async(&mut buf), horizon) });
                out.fill_calls = reader.get_ref().calls;
            }
        }
            };
        }
        if ns {
            arms!(NsReader::from_reader);
        } else {
            arms!(Reader::from_reader);
        }
        out
    });
    r.map_err(|p| format!("panic: {}", p))
}

struct Expect {
    /// Some(span) = must succeed with this span; None = must fail
    span: Option<(u64, u64)>,
    /// position just behind the construct that ends the element (for the follow-up comparison)
    resume: u64,
    expanded_empty: bool,
}

fn check(doc: &Doc, input: &[u8], cfg: u8, i: usize, op: Op, exp: &Expect, uninterrupted: &[Obs]) -> Result<bool, String> {
    check_ns(doc, input, cfg, i, op, exp, uninterrupted, false)
}

/// `ns`: the same call on an NsReader (its skipping methods wrap the plain reader's and must report the same span)
fn check_ns(doc: &Doc, input: &[u8], cfg: u8, i: usize, op: Op, exp: &Expect, uninterrupted: &[Obs], ns: bool) -> Result<bool, String> {
    let name = match tk(doc.toks[i] as usize) {
        TK::Start(n) | TK::Empty(n) => n,
        _ => unreachable!(),
    };
    let start_end = doc.off[i + 1] as u64;
    let out = run_op(input, cfg, start_end, name, op, ns)?;
    if !out.found {
        return Ok(false);
    }
    if out.cfg_after != out.cfg_before || out.cfg_before != cfg {
        return Err(format!("configuration changed by the call: before [{}], after [{}]", cfg_show(out.cfg_before), cfg_show(out.cfg_after)));
    }
    if let Op::IntoFault(_, _, true) = op {
        // a hard I/O error may hit the skip itself (=> Err, configuration restored: checked above) or
        // a later read (=> the skip is unaffected); the events after an I/O error are not compared
        return match (&out.result, exp.span) {
            (Ok(got), Some(want)) if *got != want => Err(format!("returned span {}..{}, expected {}..{}", got.0, got.1, want.0, want.1)),
            (Ok(got), None) => Err(format!("returned span {}..{} although the element is not closed in the input", got.0, got.1)),
            _ => Ok(true),
        };
    }
    match (&out.result, exp.span) {
        (Ok(got), Some(want)) => {
            if *got != want {
                return Err(format!("returned span {}..{}, expected {}..{} ({:?})", got.0, got.1, want.0, want.1, lossy(&input[want.0 as usize..want.1 as usize])));
            }
            if let Some(t) = &out.text {
                if t.as_bytes() != &input[want.0 as usize..want.1 as usize] {
                    return Err(format!("read_text returned {:?}, the span's text is {:?}", t, lossy(&input[want.0 as usize..want.1 as usize])));
                }
            }
            // following events: those of the uninterrupted run after the construct that ended the element
            let mut k = None;
            let mut seen = 0;
            for (idx, o) in uninterrupted.iter().enumerate() {
                if o.pos == exp.resume && matches!(o.ev, Ev::End(_)) {
                    seen += 1;
                    if !exp.expanded_empty || seen == 1 {
                        k = Some(idx);
                        break;
                    }
                }
            }
            let Some(k) = k else {
                return Err("MACHINERY: matching End not found in the uninterrupted run".into());
            };
            let want_rest = &uninterrupted[k + 1..];
            if out.rest != want_rest {
                let j = (0..out.rest.len().max(want_rest.len())).find(|&j| out.rest.get(j) != want_rest.get(j)).unwrap_or(0);
                let sh = |o: Option<&Obs>| o.map_or("<nothing>".to_string(), |o| format!("{} pos={}", o.ev.show(), o.pos));
                return Err(format!("event #{} after the call is {}, an uninterrupted run gives {}", j, sh(out.rest.get(j)), sh(want_rest.get(j))));
            }
        }
        (Err(e), Some(want)) => return Err(format!("failed with {}, expected span {}..{}", e, want.0, want.1)),
        (Ok(got), None) => return Err(format!("returned span {}..{} although the element is not closed in the input", got.0, got.1)),
        (Err(e), None) => {
            if e == "STUCK" {
                return Err("async call did not complete".into());
            }
        }
    }
    Ok(true)
}

pub fn run(ctx: &Ctx) {
    ctx.set_rule(
        "documents: every token sequence up to N over {<a> </a> </a_> <a/> <b> </b> <b/> t _ <!--</a>--> <![CDATA[</a>]]>} that is \
         well-formed by the token-level tag stack, plus every truncation of it at every byte; for EVERY start tag (and every empty \
         tag when expansion is on) the reader is advanced to that Start event, then each of read_to_end, read_text (slice), \
         read_to_end_into (piece sizes 1, 2, whole; also with a user buffer that is never cleared), read_to_end_into_async (piece sizes 1, whole; thorough: every placement of one \
         Pending) is called (and the same five calls on an NsReader), and read_to_end_into with an Interrupted / a hard I/O error at every refill index of the complete documents, under the 32 combinations of check_end_names x trim_text_start x trim_text_end x expand_empty_elements x \
         trim_markup_names_in_closing_tags. Oracle from the token structure: span == (end of start tag, '<' of the matching end tag) \
         (empty for an expanded empty element); read_text == input[span]; all following events and positions equal those of an \
         uninterrupted run after that end tag; Config identical before and after, on success and on error; unclosed => Err. \
         evaluations = calls; non-trivial = the skipped element contains markup or a look-alike end tag; distinct by construction",
    );
    ctx.assume("with trim_markup_names_in_closing_tags off, documents containing `</a >` are skipped (the end tag's name is then `a ` by documentation)");
    let t = ctx.tier;
    let full = cfg!(feature = "full");
    let max_tokens: u32 = if full { t.pick(6, 7) } else { t.pick(4, 5) };
    let k = MAIN_TOKENS;
    let seed = ctx.seed;
    let pend = t == Tier::Thorough;
    ctx.layer(
        "documents",
        0,
        count_upto(k, max_tokens),
        json!({"tokens": TOKENS.iter().map(|t| lossy(t)).collect::<Vec<_>>(), "max_tokens": max_tokens, "configurations": 32, "truncations": "every byte"}),
        |idx, acc| {
            let mut toks = Vec::new();
            decode_upto(k, max_tokens, idx, &mut toks);
            let doc = Doc::new(&toks);
            if !doc.well_formed() || !toks.iter().any(|&t| matches!(tk(t as usize), TK::Start(_) | TK::Empty(_))) {
                return;
            }
            acc.count("well_formed_documents", 1);
            let has_ws_end = toks.contains(&2);
            for c in 0..32u8 {
                // end-name checking is independent of skipping: the documents are well-formed
                let mut cfg = if c & 16 != 0 { 0 } else { CHECK_END_NAMES };
                if c & 1 != 0 {
                    cfg |= TRIM_START;
                }
                if c & 2 != 0 {
                    cfg |= TRIM_END;
                }
                if c & 4 != 0 {
                    cfg |= EXPAND_EMPTY;
                }
                if c & 8 != 0 {
                    cfg |= TRIM_NAMES;
                }
                if has_ws_end && cfg & TRIM_NAMES == 0 {
                    continue;
                }
                // full document and every truncation
                let n = doc.bytes.len();
                for len in (1..=n).rev() {
                    if len < n && (c % 5 != 0 || c >= 16) && !pend {
                        // quick tier: truncations under 4 of the 16 configurations
                        continue;
                    }
                    let input = &doc.bytes[..len];
                    let mut uninterrupted = Vec::new();
                    run_slice(input, cfg, 0, &mut uninterrupted);
                    for i in 0..toks.len() {
                        if doc.off[i + 1] > len {
                            break;
                        }
                        let exp = match tk(toks[i] as usize) {
                            TK::Start(_) => match doc.matching_end(i, len) {
                                Some(j) => Expect { span: Some((doc.off[i + 1] as u64, doc.off[j] as u64)), resume: doc.off[j + 1] as u64, expanded_empty: false },
                                None => Expect { span: None, resume: 0, expanded_empty: false },
                            },
                            TK::Empty(_) if cfg & EXPAND_EMPTY != 0 => {
                                let p = doc.off[i + 1] as u64;
                                Expect { span: Some((p, p)), resume: p, expanded_empty: true }
                            }
                            _ => continue,
                        };
                        let mut ops = vec![Op::ReadToEnd, Op::ReadText, Op::Into(1), Op::Into(2), Op::Into(0), Op::Async(1, None), Op::Async(0, None), Op::IntoKeep(1), Op::IntoKeep(0)];
                        if pend && len == n {
                            for p in 0..(2 * n + 4) {
                                ops.push(Op::Async(1, Some(p)));
                            }
                        }
                        // I/O faults during the skip: Interrupted must be invisible, a hard error must leave the configuration restored
                        if len == n && (c == 0 || c == 15 || pend) {
                            for p in 0..(n + 3) {
                                ops.push(Op::IntoFault(1, p, false));
                                ops.push(Op::IntoFault(1, p, true));
                                if pend {
                                    ops.push(Op::IntoFault(2, p, false));
                                    ops.push(Op::IntoFault(2, p, true));
                                }
                            }
                        }
                        // the NsReader's skipping methods: same spans, same following events
                        for op in [Op::ReadToEnd, Op::ReadText, Op::Into(1), Op::Into(0), Op::Async(1, None)] {
                            acc.evaluations += 1;
                            acc.transitions += 1;
                            match check_ns(&doc, input, cfg, i, op, &exp, &uninterrupted, true) {
                                Ok(true) => {
                                    acc.traces += 1;
                                    acc.count("ns_reader_calls", 1);
                                }
                                Ok(false) => acc.count("start_not_reached", 1),
                                Err(what) => acc.violation(
                                    (0, idx),
                                    format!("document {:?} cfg [{}], start tag #{} ({:?}), NsReader {:?}: {}", lossy(input), cfg_show(cfg), i, lossy(TOKENS[toks[i] as usize]), op, what),
                                    json!({"tokens": toks, "len": len, "cfg": cfg, "start_token": i, "op": format!("{:?}", op), "ns": true}),
                                ),
                            }
                        }
                        for op in ops {
                            acc.evaluations += 1;
                            acc.transitions += 1;
                            match check(&doc, input, cfg, i, op, &exp, &uninterrupted) {
                                Ok(true) => {
                                    acc.traces += 1;
                                    if let Some((a, b)) = exp.span {
                                        if input[a as usize..b as usize].contains(&b'<') {
                                            acc.nt_count += 1;
                                        }
                                        acc.state(h64(&(&input[a as usize..b as usize], cfg & (TRIM_START | TRIM_END))));
                                    } else {
                                        acc.count("failure_path_calls", 1);
                                    }
                                }
                                Ok(false) => acc.count("start_not_reached", 1),
                                Err(what) => acc.violation(
                                    (0, idx),
                                    format!("document {:?} cfg [{}], start tag #{} ({:?}), {:?}: {}", lossy(input), cfg_show(cfg), i, lossy(TOKENS[toks[i] as usize]), op, what),
                                    json!({"tokens": toks, "len": len, "cfg": cfg, "start_token": i, "op": format!("{:?}", op)}),
                                ),
                            }
                        }
                    }
                }
            }
            acc.sample(seed, idx, || json!({"document": lossy(&doc.bytes)}));
        },
    );
    if full {
        stretch_layer(ctx);
        history_layer(ctx);
        ns_content_layer(ctx);
    }
}

/// The NsReader's skipping methods skip: what the skipped content declares (reserved prefixes, reserved
/// namespace names, un-declarations, undeclared prefixes) is not interpreted. <a> X Y </a> <b/> with X, Y from
/// the seven opaque namespace tokens (or nothing), skipped from the first start tag by all NsReader variants.
fn ns_content_layer(ctx: &Ctx) {
    let extra: Vec<u8> = (MAIN_TOKENS as u8..TOKENS.len() as u8).collect();
    let n = extra.len() as u64 + 1;
    ctx.layer("ns_reader.skipped_content_is_not_interpreted", 3, n * n, json!({"content_tokens": extra.iter().map(|&t| lossy(TOKENS[t as usize])).collect::<Vec<_>>(), "shape": "<a> X Y </a> <b/>", "operations": "NsReader read_to_end, read_text, read_to_end_into (1, whole), read_to_end_into_async (1)"}), |i, acc| {
        let mut toks: Vec<u8> = vec![0];
        for x in [i / n, i % n] {
            if x > 0 {
                toks.push(extra[(x - 1) as usize]);
            }
        }
        toks.extend([1, 6]);
        let doc = Doc::new(&toks);
        let input = &doc.bytes[..];
        for cfg in [CHECK_END_NAMES | TRIM_NAMES, CHECK_END_NAMES | TRIM_NAMES | EXPAND_EMPTY | TRIM_START | TRIM_END] {
            let mut uninterrupted = Vec::new();
            run_slice(input, cfg, 0, &mut uninterrupted);
            let Some(exp) = expect_for(&doc, 0, input.len(), cfg) else { continue };
            for op in [Op::ReadToEnd, Op::ReadText, Op::Into(1), Op::Into(0), Op::Async(1, None)] {
                acc.evaluations += 1;
                acc.transitions += 1;
                match check_ns(&doc, input, cfg, 0, op, &exp, &uninterrupted, true) {
                    Ok(true) => {
                        acc.traces += 1;
                        acc.nt_count += 1;
                    }
                    Ok(false) => acc.count("start_not_reached", 1),
                    Err(what) => acc.violation(
                        (3, i),
                        format!("document {:?} cfg [{}], NsReader {:?} from the first start tag: {}", lossy(input), cfg_show(cfg), op, what),
                        json!({"tokens": toks, "len": input.len(), "cfg": cfg, "start_token": 0, "op": format!("{:?}", op), "ns": true}),
                    ),
                }
            }
        }
    });
}

/// Size thresholds: token lists with repeated parts. Returns the tokens and the start tokens to skip from.
const STRETCH_SHAPES: [&str; 6] = [
    "<a>^n t^m </a>^n (same-name nesting)",
    "<a> (<b> t </b>)^n t^m </a> (many children)",
    "<a> (<!--</a>-->)^n t^m (<![CDATA[</a>]]>)^n </a> (look-alike end tags)",
    "<a> (<a/>)^n t^m </a> (same-name empty elements)",
    "<a> t^m _^n </a_> (blanks before the end tag)",
    "<b> (<a>)^n t^m (</a>)^n </b> (nesting inside another name)",
];

fn stretch_doc(shape: usize, n: usize, m: usize) -> (Vec<u8>, Vec<usize>) {
    let mut t: Vec<u8> = Vec::new();
    let rep = |t: &mut Vec<u8>, toks: &[u8], k: usize| {
        for _ in 0..k {
            t.extend_from_slice(toks);
        }
    };
    let mut starts = vec![0usize];
    match shape {
        0 => {
            rep(&mut t, &[0], n.max(1));
            rep(&mut t, &[7], m);
            rep(&mut t, &[1], n.max(1));
            starts.extend([n.max(1) - 1, n.max(1) / 2]);
        }
        1 => {
            t.push(0);
            rep(&mut t, &[4, 7, 5], n);
            rep(&mut t, &[7], m);
            t.push(1);
            if n > 0 {
                starts.extend([1, 1 + 3 * (n - 1)]);
            }
        }
        2 => {
            t.push(0);
            rep(&mut t, &[9], n);
            rep(&mut t, &[7], m);
            rep(&mut t, &[10], n);
            t.push(1);
        }
        3 => {
            t.push(0);
            rep(&mut t, &[3], n);
            rep(&mut t, &[7], m);
            t.push(1);
            if n > 0 {
                starts.extend([1, n]);
            }
        }
        4 => {
            t.push(0);
            rep(&mut t, &[7], m);
            rep(&mut t, &[8], n);
            t.push(2);
        }
        _ => {
            t.push(4);
            rep(&mut t, &[0], n);
            rep(&mut t, &[7], m);
            rep(&mut t, &[1], n);
            t.push(5);
            if n > 0 {
                starts.extend([1, n]);
            }
        }
    }
    starts.sort();
    starts.dedup();
    (t, starts)
}

fn expect_for(doc: &Doc, i: usize, len: usize, cfg: u8) -> Option<Expect> {
    match tk(doc.toks[i] as usize) {
        TK::Start(_) => Some(match doc.matching_end(i, len) {
            Some(j) => Expect { span: Some((doc.off[i + 1] as u64, doc.off[j] as u64)), resume: doc.off[j + 1] as u64, expanded_empty: false },
            None => Expect { span: None, resume: 0, expanded_empty: false },
        }),
        TK::Empty(_) if cfg & EXPAND_EMPTY != 0 => {
            let p = doc.off[i + 1] as u64;
            Some(Expect { span: Some((p, p)), resume: p, expanded_empty: true })
        }
        _ => None,
    }
}

fn stretch_layer(ctx: &Ctx) {
    let t = ctx.tier;
    let ns: Vec<u32> = crate::inputs::size_list(t.pick(16, 70), t.pick(16, 17));
    let ms: [usize; 3] = [1, 0, 300];
    let cfgs_small: Vec<u8> = vec![CHECK_END_NAMES | TRIM_NAMES, CHECK_END_NAMES | TRIM_NAMES | TRIM_START | TRIM_END, CHECK_END_NAMES | TRIM_NAMES | EXPAND_EMPTY, TRIM_NAMES | TRIM_START | EXPAND_EMPTY, 127 & !ALLOW_UNMATCHED & !CHECK_COMMENTS];
    let (nn, nsh) = (ns.len() as u64, STRETCH_SHAPES.len() as u64);
    ctx.layer(
        "stretch",
        1,
        nn * nsh * 3,
        json!({"shapes": STRETCH_SHAPES, "n": format!("0..=dense and around the powers of two up to 2^16/2^17 ({} sizes)", nn), "m": ms, "skipped_from": "the outermost start tag, the first and the last inner one", "operations": "read_to_end, read_text, read_to_end_into (whole, 7, 64; small documents also 1), async whole; truncation before the last token for the failure path"}),
        |i0, acc| {
            let mi = (i0 % 3) as usize;
            let n = ns[((i0 / 3) % nn) as usize] as usize;
            let shape = (i0 / 3 / nn) as usize;
            let big = n > 1100;
            if big && mi != 0 {
                return;
            }
            let (toks, starts) = stretch_doc(shape, n, ms[mi]);
            let doc = Doc::new(&toks);
            let full_len = doc.bytes.len();
            let cfgs: &[u8] = if big { &cfgs_small[..3] } else { &cfgs_small[..] };
            for &cfg in cfgs {
                // the complete document, and the document without its last token (failure path)
                for len in [full_len, doc.off[toks.len() - 1]] {
                    if big && len != full_len && cfg != cfgs[0] {
                        continue;
                    }
                    let input = &doc.bytes[..len];
                    let mut uninterrupted = Vec::new();
                    run_slice(input, cfg, 0, &mut uninterrupted);
                    for &i in &starts {
                        if doc.off[i + 1] > len {
                            continue;
                        }
                        let Some(exp) = expect_for(&doc, i, len, cfg) else { continue };
                        let mut ops = vec![Op::ReadToEnd, Op::ReadText, Op::Into(0), Op::Into(7), Op::Into(64), Op::Async(0, None)];
                        if !big {
                            ops.push(Op::Into(1));
                            ops.push(Op::Async(1, None));
                        }
                        for op in ops {
                            acc.evaluations += 1;
                            acc.transitions += 1;
                            match check(&doc, input, cfg, i, op, &exp, &uninterrupted) {
                                Ok(true) => {
                                    acc.traces += 1;
                                    acc.nt_count += 1;
                                }
                                Ok(false) => acc.count("start_not_reached", 1),
                                Err(what) => acc.violation(
                                    (1, i0),
                                    format!("document {:?} ({} with n={} m={}) cfg [{}], start tag #{}, {:?}: {}", lossy_head(input), STRETCH_SHAPES[shape], n, ms[mi], cfg_show(cfg), i, op, lossy_head(what.as_bytes())),
                                    json!({"stretch": [shape, n, ms[mi]], "len": len, "cfg": cfg, "start_token": i, "op": format!("{:?}", op)}),
                                ),
                            }
                        }
                    }
                }
            }
        },
    );
}

// ------------------------------------------------------------------------------------------------
// Histories on ONE reader: reads, skips and configuration changes interleaved (state carried from a
// failed skip into later calls), the same history on the three reader kinds.

#[derive(Clone, Copy, PartialEq, Eq, Debug)]
enum HOp {
    Read,
    /// read_to_end* with the name of the last Start event (a plain read if the last event was no Start)
    Skip,
    Flip(u8),
}

const HOPS: [HOp; 5] = [HOp::Read, HOp::Skip, HOp::Flip(TRIM_START), HOp::Flip(TRIM_END), HOp::Flip(EXPAND_EMPTY)];

/// One step of a history as observed: what the call returned, the configuration and the position after it.
#[derive(Clone, PartialEq, Eq, Debug)]
struct HObs {
    what: String,
    cfg: u8,
    pos: u64,
}

fn run_history_on(input: &[u8], cfg0: u8, ops: &[HOp], kind: u8) -> Result<Vec<HObs>, String> {
    let script = Script::pieces(1);
    let horizon = input.len() + 16;
    let r = guarded_mut(|| -> Result<Vec<HObs>, String> {
        let mut out = Vec::new();
        let mut slice = Reader::from_reader(input);
        let mut io = Reader::from_reader(Source::new(input, &script));
        apply_cfg(slice.config_mut(), cfg0);
        apply_cfg(io.config_mut(), cfg0);
        let mut buf = Vec::new();
        let mut last_start: Option<Vec<u8>> = None;
        let mut fatal = false;
        for (k, op) in ops.iter().enumerate() {
            let before = if kind == 0 { cfg_bits(slice.config()) } else { cfg_bits(io.config()) };
            let what = match *op {
                HOp::Flip(bit) => {
                    let c = if kind == 0 { slice.config_mut() } else { io.config_mut() };
                    let now = cfg_bits(c) ^ bit;
                    apply_cfg(c, now);
                    last_start = last_start.take();
                    format!("flip -> [{}]", cfg_show(now))
                }
                HOp::Skip if last_start.is_some() => {
                    let name = last_start.take().unwrap();
                    let q = QName(&name);
                    let r = match kind {
                        0 => slice.read_to_end(q).map(|s| (s.start, s.end)).map_err(|e| format!("{:?}", e)),
                        1 => {
                            buf.clear();
                            io.read_to_end_into(q, &mut buf).map(|s| (s.start, s.end)).map_err(|e| format!("{:?}", e))
                        }
                        _ => {
                            buf.clear();
                            match block_on(io.read_to_end_into_async(q, &mut buf), 4 * horizon) {
                                Some(r) => r.map(|s| (s.start, s.end)).map_err(|e| format!("{:?}", e)),
                                None => return Err(format!("step #{}: async skip did not complete", k)),
                            }
                        }
                    };
                    if let Err(e) = &r {
                        if e.contains("Syntax") {
                            fatal = true;
                        }
                    }
                    format!("skip -> {:?}", r)
                }
                HOp::Read | HOp::Skip => {
                    let ev = match kind {
                        0 => Ev::from_result(&slice.read_event()),
                        1 => {
                            buf.clear();
                            Ev::from_result(&io.read_event_into(&mut buf))
                        }
                        _ => {
                            buf.clear();
                            match block_on(io.read_event_into_async(&mut buf), horizon) {
                                Some(r) => Ev::from_result(&r),
                                None => return Err(format!("step #{}: async read did not complete", k)),
                            }
                        }
                    };
                    last_start = match &ev {
                        Ev::Start(c, n) => Some(c[..*n].to_vec()),
                        _ => None,
                    };
                    if matches!(&ev, Ev::Err(e) if e.is_syntax()) {
                        fatal = true;
                    }
                    format!("read -> {}", ev.show())
                }
            };
            let (after, pos) = if kind == 0 { (cfg_bits(slice.config()), slice.buffer_position()) } else { (cfg_bits(io.config()), io.buffer_position()) };
            if !matches!(op, HOp::Flip(_)) && after != before {
                return Err(format!("step #{} ({}) changed the configuration from [{}] to [{}]", k, what, cfg_show(before), cfg_show(after)));
            }
            // the resting position after a fatal syntax error is not stated (see C02)
            out.push(HObs { what, cfg: after, pos: if fatal { 0 } else { pos } });
        }
        Ok(out)
    });
    r.map_err(|p| format!("panic: {}", p))?
}

fn history_layer(ctx: &Ctx) {
    let t = ctx.tier;
    let k = MAIN_TOKENS;
    let nt = t.pick(4, 5);
    let nh = t.pick(4, 6);
    let ko = HOPS.len() as u64;
    let ndocs = count_upto(k, nt);
    let nhist = count_upto(ko, nh);
    let cfgs = [CHECK_END_NAMES | TRIM_NAMES, CHECK_END_NAMES | TRIM_NAMES | TRIM_START | TRIM_END];
    ctx.layer(
        "histories_on_one_reader",
        2,
        ndocs * 2,
        json!({"documents": format!("every token sequence up to {} tokens (well-formed or not)", nt), "operations": ["read_event", "skip the element just opened", "flip trim_text_start", "flip trim_text_end", "flip expand_empty_elements"], "max_operations": nh, "histories_per_document": nhist, "readers": ["slice", "buffered (1-byte pieces)", "async (1-byte pieces)"], "initial_configurations": 2}),
        |i, acc| {
            let mut toks = Vec::new();
            decode_upto(k, nt, i / 2, &mut toks);
            let cfg0 = cfgs[(i % 2) as usize];
            let doc = Doc::new(&toks);
            let mut d = Vec::new();
            for h in 0..nhist {
                decode_upto(ko, nh, h, &mut d);
                let ops: Vec<HOp> = d.iter().map(|&x| HOPS[x as usize]).collect();
                // histories that end in a flip or start with a skip add nothing
                if matches!(ops.last(), Some(HOp::Flip(_)) | None) || !ops.iter().any(|o| *o == HOp::Skip) {
                    continue;
                }
                let mut traces: Vec<Vec<HObs>> = Vec::new();
                for kind in 0..3u8 {
                    acc.evaluations += 1;
                    acc.transitions += ops.len() as u64;
                    match run_history_on(&doc.bytes, cfg0, &ops, kind) {
                        Ok(tr) => traces.push(tr),
                        Err(what) => {
                            acc.violation((2, i), format!("document {:?} initial cfg [{}], history {:?} on the {} reader: {}", lossy(&doc.bytes), cfg_show(cfg0), ops, ["slice", "buffered", "async"][kind as usize], what), json!({"tokens": toks, "hist_cfg": cfg0, "history": d, "reader": kind}));
                            break;
                        }
                    }
                }
                if traces.len() == 3 {
                    acc.traces += 1;
                    acc.nt_count += 1;
                    for kind in 1..3 {
                        if traces[kind] != traces[0] {
                            let j = (0..traces[0].len()).find(|&j| traces[kind][j] != traces[0][j]).unwrap_or(0);
                            acc.violation(
                                (2, i),
                                format!("document {:?} initial cfg [{}], history {:?}: step #{} on the {} reader gives {:?}, on the slice reader {:?}", lossy(&doc.bytes), cfg_show(cfg0), ops, j, ["slice", "buffered", "async"][kind], traces[kind][j], traces[0][j]),
                                json!({"tokens": toks, "hist_cfg": cfg0, "history": d, "reader": kind}),
                            );
                        }
                    }
                }
            }
        },
    );
}

fn parse_op(s: &str) -> Op {
    let nums: Vec<usize> = s.split(|c: char| !c.is_ascii_digit()).filter(|x| !x.is_empty()).map(|x| x.parse().unwrap()).collect();
    if s.starts_with("ReadToEnd") {
        Op::ReadToEnd
    } else if s.starts_with("ReadText") {
        Op::ReadText
    } else if s.starts_with("IntoKeep") {
        Op::IntoKeep(nums[0])
    } else if s.starts_with("IntoFault") {
        Op::IntoFault(nums[0], nums[1], s.contains("true"))
    } else if s.starts_with("Into") {
        Op::Into(nums[0])
    } else {
        Op::Async(nums[0], nums.get(1).copied())
    }
}

pub fn replay(case: &Value) -> Result<(), String> {
    if let Some(h) = case.get("history").and_then(|h| h.as_array()) {
        let toks: Vec<u8> = case["tokens"].as_array().ok_or("no tokens")?.iter().map(|v| v.as_u64().unwrap() as u8).collect();
        let doc = Doc::new(&toks);
        let cfg0 = case["hist_cfg"].as_u64().unwrap_or(0) as u8;
        let ops: Vec<HOp> = h.iter().map(|x| HOPS[x.as_u64().unwrap() as usize]).collect();
        println!("document {:?} initial cfg [{}] history {:?}", lossy(&doc.bytes), cfg_show(cfg0), ops);
        let mut first: Option<Vec<HObs>> = None;
        for kind in 0..3u8 {
            let tr = run_history_on(&doc.bytes, cfg0, &ops, kind)?;
            println!("{} reader:", ["slice", "buffered", "async"][kind as usize]);
            for o in &tr {
                println!("  {} | cfg [{}] pos {}", o.what, cfg_show(o.cfg), o.pos);
            }
            match &first {
                None => first = Some(tr),
                Some(f) if *f != tr => return Err("the readers disagree".into()),
                _ => {}
            }
        }
        return Ok(());
    }
    let toks: Vec<u8> = match case.get("stretch").and_then(|s| s.as_array()) {
        Some(a) => stretch_doc(a[0].as_u64().unwrap() as usize, a[1].as_u64().unwrap() as usize, a[2].as_u64().unwrap() as usize).0,
        None => case["tokens"].as_array().ok_or("no tokens")?.iter().map(|v| v.as_u64().unwrap() as u8).collect(),
    };
    let doc = Doc::new(&toks);
    let len = case["len"].as_u64().unwrap() as usize;
    let cfg = case["cfg"].as_u64().unwrap() as u8;
    let i = case["start_token"].as_u64().unwrap() as usize;
    let op = parse_op(case["op"].as_str().unwrap());
    let input = &doc.bytes[..len];
    let mut uninterrupted = Vec::new();
    run_slice(input, cfg, 0, &mut uninterrupted);
    println!("document {:?} cfg [{}] start token #{} op {:?}", lossy_head(input), cfg_show(cfg), i, op);
    if input.len() <= 400 {
        println!("uninterrupted run:");
        for o in show_trace(&uninterrupted) {
            println!("  {}", o.as_str().unwrap());
        }
    }
    let exp = match tk(toks[i] as usize) {
        TK::Start(_) => match doc.matching_end(i, len) {
            Some(j) => Expect { span: Some((doc.off[i + 1] as u64, doc.off[j] as u64)), resume: doc.off[j + 1] as u64, expanded_empty: false },
            None => Expect { span: None, resume: 0, expanded_empty: false },
        },
        _ => {
            let p = doc.off[i + 1] as u64;
            Expect { span: Some((p, p)), resume: p, expanded_empty: true }
        }
    };
    println!("expected span: {:?}", exp.span);
    check_ns(&doc, input, cfg, i, op, &exp, &uninterrupted, case.get("ns").and_then(|n| n.as_bool()).unwrap_or(false)).map(|_| ())
}
