//! C04 — End tags are matched against open start tags exactly as configured.
//!
//! Operation histories: for every document (token sequence over names that are prefixes of each
//! other, an end tag with a trailing blank, an empty element, text) a prefix-sharing tree walk over
//! clones of the real slice reader whose edges are `read_event()` or "flip a set of the four
//! related switches through config_mut()", against a `Vec<Vec<u8>>` stack model.

use crate::common::*;
use crate::models::layer::{EndVerdict, TagStack};
use crate::trace::*;
use quick_xml::reader::Reader;
use serde_json::{json, Value};

// the second name is the Cyrillic letter `х` (bytes D1 85): names are byte strings, and a byte such as
// 0x85 inside a name must not be mistaken for a blank
const TOKENS: [&[u8]; 9] = [b"<a>", b"<ab>", b"<\xD1\x85/>", b"</a>", b"</ab>", b"</a >", b"</\xD1\x85>", b"x", b"</a\x0C>"];
/// the four related switches, as bits of the cfg byte
const SWITCHES: [u8; 4] = [CHECK_END_NAMES, ALLOW_UNMATCHED, EXPAND_EMPTY, TRIM_NAMES];

#[derive(Clone)]
struct Model {
    stack: TagStack,
    tok: usize,
    /// an expanded empty element whose synthetic End is still to come
    pending_end: Option<Vec<u8>>,
    pos: u64,
}

struct Walk<'a> {
    toks: &'a [Vec<u8>],
    doc: &'a [u8],      // token indices
    bytes: &'a [u8],    // the document
    max_flips: usize,
    acc: &'a mut Acc,
    order: (u32, u64),
    init_cfg: u8,
    history: Vec<String>,
    violated: bool,
}

/// The token table with the three names stretched to `l` repetitions (l = 1: the table above).
fn tokens(l: usize) -> Vec<Vec<u8>> {
    tokens_of(b"a", l)
}

/// `unit` = the byte(s) the first two names are made of; a lone 0xE9 gives names that are not UTF-8 (the reader
/// compares names as bytes; only the error payloads decode them)
fn tokens_of(unit: &[u8], l: usize) -> Vec<Vec<u8>> {
    let a = unit.repeat(l);
    let x = b"\xD1\x85".repeat(l);
    let cat = |parts: &[&[u8]]| parts.concat();
    vec![
        cat(&[b"<", &a, b">"]),
        cat(&[b"<", &a, b"b>"]),
        cat(&[b"<", &x, b"/>"]),
        cat(&[b"</", &a, b">"]),
        cat(&[b"</", &a, b"b>"]),
        cat(&[b"</", &a, b" >"]),
        cat(&[b"</", &x, b">"]),
        b"x".to_vec(),
        cat(&[b"</", &a, b"\x0C>"]),
    ]
}
const TOK_EMPTY: u8 = 2;
const TOK_TEXT: u8 = 7;

fn expected_next(m: &mut Model, toks: &[Vec<u8>], doc: &[u8], cfg: u8) -> (Ev, u64, Option<u64>) {
    if let Some(name) = m.pending_end.take() {
        m.stack.0.pop();
        return (Ev::End(name), m.pos, None);
    }
    if m.tok >= doc.len() {
        return (Ev::Eof, m.pos, None);
    }
    let ti = doc[m.tok];
    let t = &toks[ti as usize][..];
    m.tok += 1;
    let at = m.pos;
    m.pos += t.len() as u64;
    let after = m.pos;
    match ti {
        TOK_TEXT => {
            // adjacent text tokens are one text run
            let mut text = b"x".to_vec();
            while m.tok < doc.len() && doc[m.tok] == TOK_TEXT {
                m.tok += 1;
                m.pos += 1;
                text.push(b'x');
            }
            (Ev::Text(text), m.pos, None)
        }
        TOK_EMPTY => {
            let n: &[u8] = &t[1..t.len() - 2];
            if cfg & EXPAND_EMPTY != 0 {
                m.stack.start(n);
                m.pending_end = Some(n.to_vec());
                (Ev::Start(n.to_vec(), n.len()), after, None)
            } else {
                (Ev::Empty(n.to_vec(), n.len()), after, None)
            }
        }
        _ if t.starts_with(b"</") => {
            let content = &t[2..t.len() - 1];
            let name: &[u8] = if cfg & TRIM_NAMES != 0 {
                crate::models::layer::rtrim(content)
            } else {
                content
            };
            match m.stack.end(name, cfg) {
                EndVerdict::Ok => (Ev::End(name.to_vec()), after, None),
                EndVerdict::Mismatch { expected, found } => {
                    (Ev::Err(E::MismatchedEndTag { expected, found }), after, Some(at))
                }
                EndVerdict::Unmatched(n) => (Ev::Err(E::UnmatchedEndTag(n)), after, Some(at)),
            }
        }
        _ => {
            let name = &t[1..t.len() - 1];
            m.stack.start(name);
            (Ev::Start(name.to_vec(), name.len()), after, None)
        }
    }
}

fn head(b: &[u8]) -> String {
    if b.len() <= 300 {
        lossy(b)
    } else {
        format!("{}...({} bytes)", lossy(&b[..120]), b.len())
    }
}

impl<'a> Walk<'a> {
    fn go(&mut self, reader: &Reader<&'a [u8]>, model: &Model, cfg: u8, flips: usize, saw_err: bool, deep_pop: bool) {
        if self.violated {
            return;
        }
        // edge 1: read_event
        {
            let mut r = reader.clone();
            let mut m = model.clone();
            let depth_before = m.stack.0.len();
            let (exp, pos, epos) = expected_next(&mut m, self.toks, self.doc, cfg);
            let got = guarded_mut(|| {
                let ev = Ev::from_result(&r.read_event());
                (ev, r.buffer_position(), r.error_position())
            });
            self.acc.transitions += 1;
            let (gev, gpos, gepos) = match got {
                Ok(x) => x,
                Err(p) => (Ev::Err(E::Panic(p)), 0, 0),
            };
            let ok = gev == exp && gpos == pos && epos.map_or(true, |e| e == gepos);
            if !ok {
                self.violated = true;
                let hist = self.history.join(", ");
                self.acc.violation(
                    self.order,
                    format!(
                        "document {:?}, initial cfg [{}], history [{}]: read_event returned {} pos={} err_pos={}, stack model says {} pos={} err_pos={:?}",
                        head(self.bytes), cfg_show(self.init_cfg), hist, head(gev.show().as_bytes()), gpos, gepos, head(exp.show().as_bytes()), pos, epos
                    ),
                    json!({"name_len": self.toks[0].len() - 2, "tokens": self.doc, "init_cfg": self.init_cfg, "history": self.history}),
                );
                return;
            }
            self.acc.state(h64(&(&m.stack, cfg, m.pending_end.is_some())));
            let is_err = exp.is_err();
            let popped_deep = matches!(exp, Ev::End(_) | Ev::Err(_)) && depth_before >= 2;
            if exp == Ev::Eof {
                // complete history
                self.acc.traces += 1;
                if (flips > 0 && saw_err) || deep_pop {
                    self.acc.nt_count += 1;
                }
                return;
            }
            // the skipping calls judge end tags with the same stack and the same switches: from every Start,
            // on clones, read_to_end and read_text must succeed exactly when reading event by event reaches
            // the closing tag without an error, and otherwise return that first error
            if let Ev::Start(c, n) = &exp {
                let name = c[..*n].to_vec();
                let mut mm = m.clone();
                let mut depth = 0usize;
                let want: Result<(), Ev> = loop {
                    let (ev, _, _) = expected_next(&mut mm, self.toks, self.doc, cfg);
                    match ev {
                        Ev::Start(c2, n2) if c2[..n2] == name[..] => depth += 1,
                        Ev::End(n2) if n2 == name => {
                            if depth == 0 {
                                break Ok(());
                            }
                            depth -= 1;
                        }
                        Ev::Err(e) => break Err(Ev::Err(e)),
                        Ev::Eof => break Err(Ev::Err(E::MissingEndTag(String::from_utf8_lossy(&name).into_owned()))),
                        _ => {}
                    }
                };
                for text in [false, true] {
                    // read_text decodes the span: only comparable when the document is valid UTF-8
                    if text && std::str::from_utf8(self.bytes).is_err() {
                        continue;
                    }
                    let mut cl = r.clone();
                    let got = guarded_mut(|| {
                        let q = quick_xml::name::QName(&name);
                        let res = if text { cl.read_text(q).map(|_| ()) } else { cl.read_to_end(q).map(|_| ()) };
                        match res {
                            Ok(()) => Ok(()),
                            Err(e) => Err(Ev::from_result(&Err::<quick_xml::events::Event, _>(e))),
                        }
                    });
                    self.acc.transitions += 1;
                    let got = match got {
                        Ok(x) => x,
                        Err(p) => Err(Ev::Err(E::Panic(p))),
                    };
                    // an element that is not closed in the input: some error (how the missing end is worded, and
                    // what happens when the name cannot be decoded for the message, is not C04's business)
                    let unclosed = matches!(&want, Err(Ev::Err(E::MissingEndTag(_))));
                    if (unclosed && got.is_ok()) || (!unclosed && got != want) {
                        self.violated = true;
                        let hist = self.history.join(", ");
                        self.acc.violation(
                            self.order,
                            format!(
                                "document {:?}, initial cfg [{}], history [{}, read]: {} of the element just opened returned {:?}, reading event by event gives {:?}",
                                head(self.bytes), cfg_show(self.init_cfg), hist, if text { "read_text" } else { "read_to_end" }, got.as_ref().map_err(|e| head(e.show().as_bytes())), want.as_ref().map_err(|e| head(e.show().as_bytes()))
                            ),
                            json!({"name_len": self.toks[0].len() - 2, "tokens": self.doc, "init_cfg": self.init_cfg, "history": self.history, "skip": true}),
                        );
                        return;
                    }
                }
            }
            self.history.push("read".into());
            self.go(&r, &m, cfg, flips, saw_err || is_err, deep_pop || popped_deep);
            self.history.pop();
        }
        // edge 2: flip a non-empty set of switches (each distinct configuration change once)
        if flips < self.max_flips && !self.history.last().map_or(false, |h| h.starts_with("flip")) {
            for set in 1u8..16 {
                let k = set.count_ones() as usize;
                if flips + k > self.max_flips {
                    continue;
                }
                let mut mask = 0u8;
                for (b, sw) in SWITCHES.iter().enumerate() {
                    if set & (1 << b) != 0 {
                        mask |= sw;
                    }
                }
                let mut r = reader.clone();
                let ncfg = cfg ^ mask;
                apply_cfg(r.config_mut(), ncfg);
                self.history.push(format!("flip[{}]", cfg_show(mask)));
                self.go(&r, model, ncfg, flips + k, saw_err, deep_pop);
                self.history.pop();
            }
        }
    }
}

pub fn run(ctx: &Ctx) {
    ctx.set_rule(
        "documents: every sequence of up to N tokens over {<a> <ab> <х/> </a> </ab> </a_> </х> x} (х = bytes D1 85); for each document and each of \
         the 16 initial settings of (check_end_names, allow_unmatched_ends, expand_empty_elements, \
         trim_markup_names_in_closing_tags): every history of read_event calls interleaved with up to F switch flips (any \
         non-empty set of switches, at any event index) is walked over clones of the real reader; every read result (event / \
         MismatchedEndTag{expected,found} / UnmatchedEndTag, buffer position, error position) must equal the stack model's \
         (Start pushes; expanded Empty pushes and its synthetic End pops; End pops always; comparison and trimming use the \
         switch values at that call). From every Start event, on clones, read_to_end and read_text of the element just opened must succeed exactly when \
         the model reaches its end tag without an error and otherwise return the model's first error. evaluations = (document, initial setting) pairs; traces = complete histories; \
         transitions = read_event calls compared. non-trivial history = contains a flip and an error, or a pop at depth >= 2. \
         states = distinct (model stack, configuration) pairs reached",
    );
    ctx.assume("text trimming and comment checking are irrelevant to the stack and kept off");
    let t = ctx.tier;
    let full = cfg!(feature = "full");
    let max_tokens: u32 = if full { t.pick(5, 6) } else { t.pick(4, 5) };
    let max_flips: usize = if full { t.pick(2, 3) } else { 1 };
    let k = TOKENS.len() as u64;
    let docs = count_upto(k, max_tokens);
    let seed = ctx.seed;
    let toks1 = tokens(1);
    // names that are not valid UTF-8 and differ (a lone 0xE9, 0xE9 b): compared as bytes, shown as "" in errors
    let toks_bad = tokens_of(b"\xE9", 1);
    let bad_tokens: u32 = t.pick(4, 5);
    ctx.layer(
        "histories.undecodable_names",
        2,
        count_upto(k, bad_tokens) * 16,
        json!({"names": ["\\xE9", "\\xE9b"], "max_tokens": bad_tokens, "max_flips": 1, "initial_settings": 16}),
        |i, acc| {
            let mut doc = Vec::new();
            decode_upto(k, bad_tokens, i / 16, &mut doc);
            let init = (i % 16) as u8;
            let mut cfg = 0u8;
            for (b, sw) in SWITCHES.iter().enumerate() {
                if init & (1 << b) != 0 {
                    cfg |= sw;
                }
            }
            let bytes: Vec<u8> = doc.iter().flat_map(|&d| toks_bad[d as usize].iter().copied()).collect();
            let mut reader = Reader::from_reader(&bytes[..]);
            apply_cfg(reader.config_mut(), cfg);
            acc.evaluations += 1;
            let mut w = Walk { toks: &toks_bad, doc: &doc, bytes: &bytes, max_flips: 1, acc, order: (2, i), init_cfg: cfg, history: Vec::new(), violated: false };
            let model = Model { stack: TagStack::default(), tok: 0, pending_end: None, pos: 0 };
            w.go(&reader, &model, cfg, 0, false, false);
        },
    );
    // size thresholds of the name stack (a shared byte buffer indexed by offsets): the same walk with
    // the three names stretched to every length of the list
    let lens: Vec<usize> = t.pick(
        vec![2, 8, 9, 16, 17, 32, 64, 128, 255, 256, 257, 1024, 65535, 65536, 65537],
        crate::inputs::size_list(130, 17).into_iter().filter(|&n| n >= 2).map(|n| n as usize).collect(),
    );
    if full {
    let long_tokens: u32 = t.pick(3, 4);
    let long_flips: usize = 1;
    let tables: Vec<Vec<Vec<u8>>> = lens.iter().map(|&l| tokens(l)).collect();
    let ldocs = count_upto(k, long_tokens);
    ctx.layer(
        "histories.long_names",
        1,
        ldocs * 16 * lens.len() as u64,
        json!({"name_lengths": lens, "max_tokens": long_tokens, "max_flips": long_flips, "initial_settings": 16}),
        |i, acc| {
            let li = (i % lens.len() as u64) as usize;
            let j = i / lens.len() as u64;
            let toks = &tables[li];
            let mut doc = Vec::new();
            decode_upto(k, long_tokens, j / 16, &mut doc);
            let init = (j % 16) as u8;
            let mut cfg = 0u8;
            for (b, sw) in SWITCHES.iter().enumerate() {
                if init & (1 << b) != 0 {
                    cfg |= sw;
                }
            }
            let bytes: Vec<u8> = doc.iter().flat_map(|&d| toks[d as usize].iter().copied()).collect();
            let mut reader = Reader::from_reader(&bytes[..]);
            apply_cfg(reader.config_mut(), cfg);
            acc.evaluations += 1;
            let mut w = Walk { toks, doc: &doc, bytes: &bytes, max_flips: long_flips, acc, order: (1, i), init_cfg: cfg, history: Vec::new(), violated: false };
            let model = Model { stack: TagStack::default(), tok: 0, pending_end: None, pos: 0 };
            w.go(&reader, &model, cfg, 0, false, false);
        },
    );
    }
    // the big layer last
    ctx.layer(
        "histories",
        0,
        docs * 16,
        json!({"tokens": TOKENS.iter().map(|t| lossy(t)).collect::<Vec<_>>(), "max_tokens": max_tokens, "max_flips": max_flips, "initial_settings": 16}),
        |i, acc| {
            let mut doc = Vec::new();
            decode_upto(k, max_tokens, i / 16, &mut doc);
            let init = (i % 16) as u8;
            let mut cfg = 0u8;
            for (b, sw) in SWITCHES.iter().enumerate() {
                if init & (1 << b) != 0 {
                    cfg |= sw;
                }
            }
            let bytes: Vec<u8> = doc.iter().flat_map(|&d| toks1[d as usize].iter().copied()).collect();
            let mut reader = Reader::from_reader(&bytes[..]);
            apply_cfg(reader.config_mut(), cfg);
            acc.evaluations += 1;
            let mut w = Walk { toks: &toks1, doc: &doc, bytes: &bytes, max_flips, acc, order: (0, i), init_cfg: cfg, history: Vec::new(), violated: false };
            let model = Model { stack: TagStack::default(), tok: 0, pending_end: None, pos: 0 };
            w.go(&reader, &model, cfg, 0, false, false);
            acc.sample(seed, i, || json!({"document": lossy(&bytes), "initial_cfg": cfg_show(cfg)}));
        },
    );
}

pub fn replay(case: &Value) -> Result<(), String> {
    let toks = tokens(case["name_len"].as_u64().unwrap_or(1) as usize);
    let doc: Vec<u8> = case["tokens"].as_array().ok_or("no tokens")?.iter().map(|v| v.as_u64().unwrap() as u8).collect();
    let bytes: Vec<u8> = doc.iter().flat_map(|&d| toks[d as usize].iter().copied()).collect();
    let mut cfg = case["init_cfg"].as_u64().unwrap_or(0) as u8;
    let hist: Vec<String> = case["history"].as_array().map(|a| a.iter().map(|v| v.as_str().unwrap().to_string()).collect()).unwrap_or_default();
    println!("document {:?} initial cfg [{}]", head(&bytes), cfg_show(cfg));
    let mut reader = Reader::from_reader(&bytes[..]);
    apply_cfg(reader.config_mut(), cfg);
    let mut m = Model { stack: TagStack::default(), tok: 0, pending_end: None, pos: 0 };
    let mut steps = hist.clone();
    steps.push("read".into());
    for h in &steps {
        if let Some(names) = h.strip_prefix("flip[") {
            let names = names.trim_end_matches(']');
            let mut mask = 0;
            for (i, n) in ["allow_unmatched_ends", "check_comments", "check_end_names", "expand_empty_elements", "trim_markup_names_in_closing_tags"].iter().enumerate() {
                if names.split('+').any(|x| x == *n) {
                    mask |= 1 << i;
                }
            }
            cfg ^= mask;
            apply_cfg(reader.config_mut(), cfg);
            println!("  flip -> [{}]", cfg_show(cfg));
        } else {
            let (exp, pos, epos) = expected_next(&mut m, &toks, &doc, cfg);
            let got = Ev::from_result(&reader.read_event());
            println!("  read_event -> {} pos={} err_pos={}   | model: {} pos={} err_pos={:?}", head(got.show().as_bytes()), reader.buffer_position(), reader.error_position(), head(exp.show().as_bytes()), pos, epos);
            if got != exp || reader.buffer_position() != pos || epos.map_or(false, |e| e != reader.error_position()) {
                return Err(format!("read_event returned {}, model says {}", head(got.show().as_bytes()), head(exp.show().as_bytes())));
            }
        }
    }
    Ok(())
}
