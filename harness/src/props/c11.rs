//! C11 — Attribute iteration yields exactly the tag's attributes or the documented error.

use crate::common::*;
use crate::inputs::*;
use crate::models::attrs::{parse, Item};
use quick_xml::events::attributes::{AttrError, Attributes};
use quick_xml::events::BytesStart;
use serde_json::{json, Value};

fn to_item(r: Result<quick_xml::events::attributes::Attribute, AttrError>) -> Item {
    match r {
        Ok(a) => Item::Attr { key: a.key.as_ref().to_vec(), value: a.value.to_vec() },
        Err(AttrError::ExpectedEq(p)) => Item::ExpectedEq(p),
        Err(AttrError::ExpectedValue(p)) => Item::ExpectedValue(p),
        Err(AttrError::UnquotedValue(p)) => Item::UnquotedValue(p),
        Err(AttrError::ExpectedQuote(p, q)) => Item::ExpectedQuote(p, q),
        Err(AttrError::Duplicated(a, b)) => Item::Duplicated(a, b),
    }
}

fn drain(mut it: Attributes, len: usize) -> Result<Vec<Item>, String> {
    let mut v = Vec::new();
    loop {
        match it.next() {
            None => break,
            Some(r) => v.push(to_item(r)),
        }
        if v.len() > len + 3 {
            return Err("iteration does not end".into());
        }
    }
    for _ in 0..3 {
        if let Some(r) = it.next() {
            return Err(format!("iteration resumed after None with {:?}", to_item(r)));
        }
    }
    Ok(v)
}

fn show(items: &[Item]) -> String {
    let parts: Vec<String> = items
        .iter()
        .map(|i| match i {
            Item::Attr { key, value } => format!("{}={:?}", lossy(key), lossy(value)),
            Item::ExpectedQuote(p, q) => format!("ExpectedQuote({},{})", p, *q as char),
            other => format!("{:?}", other),
        })
        .collect();
    format!("[{}]", parts.join(", "))
}

/// mode: bit0 = html, bit1 = checks, bit2 = behind a tag name (BytesStart::from_content),
/// bit3 = `with_checks` is not called at all (the documented default: duplicate checking on)
pub fn check_one(s: &str, mode: u8) -> Result<Vec<Item>, String> {
    let html = mode & 1 != 0;
    let default_checks = mode & 8 != 0;
    let checks = mode & 2 != 0 || default_checks;
    let tagged = mode & 4 != 0;
    let got = guarded(|| {
        if tagged {
            let content = format!("t{}", s);
            let e = BytesStart::from_content(content.as_str(), 1);
            let mut it = if html { e.html_attributes() } else { e.attributes() };
            if !default_checks {
                it.with_checks(checks);
            }
            drain(it, content.len())
        } else {
            let mut it = if html { Attributes::html(s, 0) } else { Attributes::new(s, 0) };
            if !default_checks {
                it.with_checks(checks);
            }
            drain(it, s.len())
        }
    })
    .map_err(|p| format!("panic: {}", p))??;
    let want = if tagged {
        let content = format!("t{}", s);
        parse(content.as_bytes(), 1, html, checks)
    } else {
        parse(s.as_bytes(), 0, html, checks)
    };
    // sibling entry point: BytesStart::try_get_attribute(name) is documented as the first attribute of
    // that name in an iteration without duplicate checks (None if there is none)
    if tagged && !html && parse(format!("t{}", s).as_bytes(), 1, false, false).iter().all(|i| matches!(i, Item::Attr { .. })) {
        // (only on attribute areas that iterate without an error: what the lookup does in front of an error is
        // not stated anywhere)
        let content = format!("t{}", s);
        let plain = parse(content.as_bytes(), 1, false, false);
        let e = BytesStart::from_content(content.as_str(), 1);
        let mut names: Vec<Vec<u8>> = plain.iter().filter_map(|i| if let Item::Attr { key, .. } = i { Some(key.clone()) } else { None }).collect();
        names.push(b"zz".to_vec());
        names.push(Vec::new());
        names.dedup();
        for name in names {
            let mut expect: Result<Option<Item>, Item> = Ok(None);
            for it in &plain {
                match it {
                    Item::Attr { key, .. } if *key == name => {
                        expect = Ok(Some(it.clone()));
                        break;
                    }
                    Item::Attr { .. } => {}
                    err => {
                        expect = Err(err.clone());
                        break;
                    }
                }
            }
            let got1 = guarded(|| match e.try_get_attribute(&name) {
                Ok(Some(a)) => Ok(Some(to_item(Ok(a)))),
                Ok(None) => Ok(None),
                Err(err) => Err(to_item(Err(err))),
            })
            .map_err(|p| format!("panic in try_get_attribute: {}", p))?;
            if got1 != expect {
                return Err(format!("try_get_attribute({:?}) gives {:?}, an iteration without duplicate checks gives {:?}", lossy(&name), got1, expect));
            }
        }
    }
    if got != want {
        let i = (0..got.len().max(want.len())).find(|&i| got.get(i) != want.get(i)).unwrap_or(0);
        return Err(format!(
            "item #{} differs: iterator yields {}, the documented grammar gives {}",
            i,
            show(&got),
            show(&want)
        ));
    }
    Ok(got)
}

fn mode_name(m: u8) -> String {
    format!(
        "{}{}{}",
        if m & 1 != 0 { "html" } else { "xml" },
        if m & 8 != 0 { "+default checks (with_checks not called)" } else if m & 2 != 0 { "+checks" } else { "" },
        if m & 4 != 0 { "+behind tag name" } else { "" }
    )
}

/// F2 signature (only consulted while the finding is open): duplicate checking on, the observed
/// items agree with the grammar up to and including a `Duplicated` error.
fn is_f2(s: &str, mode: u8) -> bool {
    if mode & 2 == 0 && mode & 8 == 0 {
        return false;
    }
    let html = mode & 1 != 0;
    let tagged = mode & 4 != 0;
    let content = if tagged { format!("t{}", s) } else { s.to_string() };
    let start = if tagged { 1 } else { 0 };
    let want = parse(content.as_bytes(), start, html, true);
    let got = guarded(|| {
        let mut it = if html { Attributes::html(&content, start) } else { Attributes::new(&content, start) };
        it.with_checks(true);
        drain(it, content.len())
    });
    let Ok(Ok(got)) = got else { return false };
    let Some(d) = want.iter().position(|i| matches!(i, Item::Duplicated(..))) else { return false };
    got.len() > d && got[..=d] == want[..=d]
}

const ALPHA: &[u8] = b" \t=\"'ab/";

const POOL_OK: [&str; 8] = ["a='1'", "b=\"2\"", "c = 'x y'", "d\t=\t\"it's\"", "e=''", "a:b='\"'", "A='3'", "a:B='4'"];
const POOL_BAD: [&str; 9] = ["a='dup'", "k", "k2 =", "u=v", "b=\"x y\"", "q='open", "a = 'dup 2'", "b\t=\t\"2\"", "e =\n''"];

pub fn run(ctx: &Ctx) {
    ctx.set_rule(
        "every string up to length N over {space tab = \" ' a b /} taken as the whole attribute area (Attributes::new / html at \
         offset 0) and behind a tag name (BytesStart::from_content), in XML and HTML mode, with and without duplicate checks \
         (8 modes; the attribute lists also with `with_checks` never called, where the documented default — checking on — must apply); every byte pair in blank-sensitive positions of four attribute templates (which bytes separate attributes); \
         every ordered list of up to 4 attributes from a pool of 8 well-formed (incl. keys that differ only in case) and 9 faulty items (incl. duplicates with blanks around `=`) with three separators. Oracle: \
         the item sequence of the reference grammar (key bytes, value bytes, error variant + positions, documented recovery point), \
         then None forever (3 extra calls). non-trivial = the grammar yields at least one item; distinct inputs by construction. \
         states = distinct item-kind sequences",
    );
    ctx.assume("pinned: the first non-blank byte of an attribute belongs to the key; a key is 'seen' for duplicate detection once accepted");
    let t = ctx.tier;
    let known = Known::load();
    let seed = ctx.seed;
    let max_len = t.pick(7, 9);
    let sp = raw("strings", ALPHA, max_len);
    ctx.layer("strings_x_8modes", 0, sp.total, sp.desc.clone(), |i, acc| {
        let mut b = Vec::new();
        sp.get(i, &mut b);
        let s = std::str::from_utf8(&b).unwrap();
        for mode in 0..8u8 {
            acc.evaluations += 1;
            acc.traces += 1;
            match check_one(s, mode) {
                Ok(items) => {
                    acc.transitions += items.len() as u64 + 4;
                    if mode == 2 {
                        if !items.is_empty() {
                            acc.nt_count += 1;
                        }
                        let kinds: Vec<u8> = items.iter().map(|i| match i { Item::Attr { .. } => 0, Item::ExpectedEq(_) => 1, Item::ExpectedValue(_) => 2, Item::UnquotedValue(_) => 3, Item::ExpectedQuote(..) => 4, Item::Duplicated(..) => 5 }).collect();
                        acc.state(h64(&kinds));
                    }
                }
                Err(what) => {
                    if known.is_open("F2") && is_f2(s, mode) {
                        acc.known("F2", || format!("{:?} ({})", s, mode_name(mode)));
                    } else {
                        acc.violation((0, i * 8 + mode as u64), format!("attribute area {:?} ({}): {}", s, mode_name(mode), what), json!({"s": s, "mode": mode}));
                    }
                }
            }
        }
        acc.sample(seed, i, || json!({"attribute_area": s}));
    });

    // which bytes separate attributes / end a key / end an unquoted value
    const TPL: [(&str, &str, &str); 5] = [("a", "=", "'1' c='2'"), ("a='1'", "c", "='2'"), ("a=x", "c='2'", ""), ("a='1' a='2'", "c='3'", ""), ("a", "", "b='2'")];
    ctx.layer("byte_classes", 1, TPL.len() as u64 * 128 * 128, json!({"templates": TPL.iter().map(|t| format!("{}{{b1}}{}{{b2}}{}", t.0, t.1, t.2)).collect::<Vec<_>>(), "bytes": "all ASCII pairs"}), |i, acc| {
        let tpl = TPL[(i % TPL.len() as u64) as usize];
        let b = i / TPL.len() as u64;
        let (b1, b2) = ((b / 128) as u8 as char, (b % 128) as u8 as char);
        let s = format!("{}{}{}{}{}", tpl.0, b1, tpl.1, b2, tpl.2);
        for mode in 0..4u8 {
            acc.evaluations += 1;
            acc.traces += 1;
            match check_one(&s, mode) {
                Ok(items) => {
                    acc.transitions += items.len() as u64 + 4;
                    if mode == 2 {
                        acc.nontrivial(h64(&s));
                    }
                }
                Err(what) => {
                    if known.is_open("F2") && is_f2(&s, mode) {
                        acc.known("F2", || format!("{:?} ({})", s, mode_name(mode)));
                    } else {
                        acc.violation((1, i), format!("attribute area {:?} ({}): {}", s, mode_name(mode), what), json!({"s": s, "mode": mode}));
                    }
                }
            }
        }
    });

    // generated attribute lists with injected faults
    let pool: Vec<&str> = POOL_OK.iter().chain(POOL_BAD.iter()).copied().collect();
    let k = pool.len() as u64;
    let total = count_upto(k, 4) * 3;
    ctx.layer("attribute_lists", 2, total, json!({"pool": pool, "max_items": 4, "separators": [" ", "\t\n", "  "]}), |i, acc| {
        let sep = [" ", "\t\n", "  "][(i % 3) as usize];
        let mut d = Vec::new();
        decode_upto(k, 4, i / 3, &mut d);
        let s: Vec<&str> = d.iter().map(|&x| pool[x as usize]).collect();
        let s = s.join(sep);
        for mode in [0u8, 1, 2, 3, 4, 5, 6, 7, 8, 9, 12, 13] {
            acc.evaluations += 1;
            acc.traces += 1;
            match check_one(&s, mode) {
                Ok(items) => {
                    acc.transitions += items.len() as u64 + 4;
                    if mode == 2 {
                        acc.nontrivial(h64(&s));
                    }
                }
                Err(what) => {
                    if known.is_open("F2") && is_f2(&s, mode) {
                        acc.known("F2", || format!("{:?} ({})", s, mode_name(mode)));
                    } else {
                        acc.violation((2, i), format!("attribute area {:?} ({}): {}", s, mode_name(mode), what), json!({"s": s, "mode": mode}));
                    }
                }
            }
        }
        if i % 97 == 0 {
            acc.sample(seed, i ^ 0x9999, || json!({"attribute_area": s}));
        }
    });

    // size thresholds: attribute counts (the duplicate check keeps every key range seen so far), key
    // and value lengths, runs of blanks, runs of the other quote / of '>' inside values
    let ns: Vec<u32> = size_list(ctx.tier.pick(40, 140), ctx.tier.pick(10, 13));
    let ms: Vec<u32> = vec![0, 1, 2, 3, 7, 8, 9, 15, 16, 17, 31, 32, 33, 63, 64, 65, 255, 256, 257];
    const SHAPES: [&str; 12] = [
        "n distinct attributes k<i>='<i>'",
        "n distinct attributes, then the first key again, then z='1'",
        "n distinct attributes, then the middle key again, then z='1'",
        "n distinct attributes, then the last key again (blanks around =), then z='1'",
        "key of n bytes, value of m bytes, then b='2'",
        "key of n bytes twice (values of m bytes), then b='3'",
        "a, n blanks, =, m blanks (tab/LF mixed), '1', then b='2'",
        "value of n double quotes in single quotes, value of m '>' in double quotes, then c='3'",
        "html: unquoted value of n bytes, then m value-less keys",
        "key without = of n bytes between two good attributes",
        "n attributes with the same key",
        "unterminated quote after n good attributes and m bytes of value",
    ];
    let (nn, nm, nsh) = (ns.len() as u64, ms.len() as u64, SHAPES.len() as u64);
    ctx.layer("stretch", 3, nn * nm * nsh, json!({"shapes": SHAPES, "n": format!("0..=dense and around the powers of two ({} sizes)", nn), "m": ms}), |i0, acc| {
        let mut i = i0;
        let m = ms[(i % nm) as usize] as usize;
        i /= nm;
        let n = ns[(i % nn) as usize] as usize;
        let shape = (i / nn) as usize;
        // shapes that do not use m run once (m = first entry)
        if matches!(shape, 0 | 1 | 2 | 3 | 9 | 10) && m != ms[0] as usize {
            return;
        }
        let distinct = |n: usize| (0..n).map(|k| format!("k{}='{}'", k, k)).collect::<Vec<_>>().join(" ");
        let s = match shape {
            0 => distinct(n),
            1 if n > 0 => format!("{} k0='again' z='1'", distinct(n)),
            2 if n > 0 => format!("{} k{}='again' z='1'", distinct(n), n / 2),
            3 if n > 0 => format!("{} k{} = \"again\" z='1'", distinct(n), n - 1),
            4 => format!("{}='{}' b='2'", "k".repeat(n + 1), "v".repeat(m)),
            5 => format!("{}='{}' {}=\"{}\" b='3'", "k".repeat(n + 1), "v".repeat(m), "k".repeat(n + 1), "w".repeat(m)),
            6 => format!("a{}={}'1' b='2'", " ".repeat(n), "\t\n".repeat(m)),
            7 => format!("a='{}' b=\"{}\" c='3'", "\"".repeat(n), ">".repeat(m)),
            8 => format!("a={} {}", "x".repeat(n + 1), (0..m).map(|k| format!("j{}", k)).collect::<Vec<_>>().join(" ")),
            9 => format!("a='1' {} b='2'", "k".repeat(n + 1)),
            10 => (0..n).map(|k| format!("a='{}'", k)).collect::<Vec<_>>().join(" "),
            11 => format!("{} q='{}", distinct(n), "o".repeat(m)),
            _ => return,
        };
        for mode in [0u8, 1, 2, 3, 6, 7, 8, 9] {
            acc.evaluations += 1;
            acc.traces += 1;
            match check_one(&s, mode) {
                Ok(items) => {
                    acc.transitions += items.len() as u64 + 4;
                    if mode == 2 {
                        acc.nt_count += 1;
                    }
                }
                Err(what) => {
                    let head = |x: &str| if x.len() > 300 { format!("{}...({} bytes)...{}", &x[..150], x.len(), &x[x.len() - 80..]) } else { x.to_string() };
                    acc.violation((3, i0), format!("attribute area {:?} ({}): {}", head(&s), mode_name(mode), head(&what)), json!({"s": s, "mode": mode}));
                }
            }
        }
    });
}

pub fn replay(case: &Value) -> Result<(), String> {
    let s = case["s"].as_str().ok_or("no string")?;
    let mode = case["mode"].as_u64().unwrap_or(2) as u8;
    println!("attribute area {:?} mode {}", s, mode_name(mode));
    check_one(s, mode).map(|items| println!("items: {}", show(&items)))
}
