//! C08 — Positions account for every byte; reading then writing reproduces the input.
//!
//! Self-consistency oracle (no reference lexer involved): the bytes between the positions before
//! and after a successful read call must be exactly the event rendered with its fixed delimiters;
//! spans tile the input; writing the events back reproduces the input (minus BOM, modulo the
//! DOCTYPE keyword's spelling).

use crate::common::*;
use crate::env::Script;
use crate::inputs::*;
use crate::models::lex::{is_ws, strip_bom};
use crate::trace::*;
use quick_xml::events::Event;
use quick_xml::reader::Reader;
use quick_xml::writer::Writer;
use serde_json::{json, Value};

/// Checks that `span` is the markup of `ev`; returns the canonical bytes a writer must emit.
fn render_matches(ev: &Ev, span: &[u8]) -> Result<Vec<u8>, String> {
    let wrap = |a: &[u8], c: &[u8], b: &[u8]| {
        let mut v = a.to_vec();
        v.extend_from_slice(c);
        v.extend_from_slice(b);
        v
    };
    let expect = match ev {
        Ev::Start(c, _) => wrap(b"<", c, b">"),
        Ev::Empty(c, _) => wrap(b"<", c, b"/>"),
        Ev::End(c) => wrap(b"</", c, b">"),
        Ev::Text(c) => c.clone(),
        Ev::Comment(c) => wrap(b"<!--", c, b"-->"),
        Ev::CData(c) => wrap(b"<![CDATA[", c, b"]]>"),
        Ev::Decl(c) | Ev::PI(c, _) => wrap(b"<?", c, b"?>"),
        Ev::DocType(c) => {
            // `<!` + DOCTYPE in any case + blanks + content + `>`
            let ok = span.len() >= 10 + c.len()
                && span.starts_with(b"<!")
                && span[2..9].eq_ignore_ascii_case(b"DOCTYPE")
                && span.ends_with(b">")
                && span[span.len() - 1 - c.len()..span.len() - 1] == c[..]
                && span[9..span.len() - 1 - c.len()].iter().all(|&b| is_ws(b))
                && !c.is_empty()
                && !is_ws(c[0]);
            return if ok {
                Ok(wrap(b"<!DOCTYPE ", c, b">"))
            } else {
                Err(format!("DocType({:?}) does not account for its span {:?}", lossy(c), lossy(span)))
            };
        }
        Ev::Eof => Vec::new(),
        Ev::Err(_) => return Ok(Vec::new()),
    };
    if expect == span {
        Ok(expect)
    } else {
        Err(format!("{} does not account for the bytes consumed by the call: {:?}", ev.show(), lossy(span)))
    }
}

/// `cfg` must not trim or expand. Returns (number of events, has error).
pub fn check_input(input: &[u8], cfg: u8, script: Option<&Script>) -> Result<(usize, Vec<u8>), String> {
    let s = strip_bom(input);
    let mut obs = Vec::new();
    match script {
        None => run_slice(input, cfg, 1, &mut obs),
        Some(sc) => {
            run_buffered(input, cfg, sc, 1, false, &mut obs);
        }
    }
    let mut prev = 0u64;
    let mut canon = Vec::new();
    let mut kinds = Vec::new();
    let mut fatal = false;
    for (i, o) in obs.iter().enumerate() {
        kinds.push(o.ev.kind());
        if let Ev::Err(E::Panic(p)) = &o.ev {
            return Err(format!("panic: {}", p));
        }
        if o.pos < prev || o.pos as usize > s.len() {
            return Err(format!("call #{}: position {} after {} (input length {})", i, o.pos, prev, s.len()));
        }
        if fatal {
            if o.ev != Ev::Eof {
                return Err(format!("call #{} after a syntax error returned {}", i, o.ev.show()));
            }
            continue;
        }
        let span = &s[prev as usize..o.pos as usize];
        match &o.ev {
            Ev::Err(e) if e.is_syntax() => fatal = true,
            Ev::Err(_) => {} // recoverable: its bytes are skipped, contiguity is checked by construction
            ev => {
                let c = render_matches(ev, span).map_err(|m| format!("call #{}: {}", i, m))?;
                canon.extend_from_slice(&c);
                if *ev == Ev::Eof && o.pos as usize != s.len() {
                    return Err(format!("Eof at position {} but the input has {} bytes", o.pos, s.len()));
                }
            }
        }
        prev = o.pos;
    }
    if !fatal && obs.last().map(|o| &o.ev) != Some(&Ev::Eof) {
        return Err("no Eof within the call bound".into());
    }
    // read -> write
    if script.is_none() {
        let written = guarded_mut(|| {
            let mut reader = Reader::from_reader(input);
            apply_cfg(reader.config_mut(), cfg);
            let mut w = Writer::new(Vec::new());
            // the same events detached from the input (`into_owned`) must write the same bytes
            let mut w2 = Writer::new(Vec::new());
            for _ in 0..2 * input.len() + 8 {
                match reader.read_event() {
                    Ok(Event::Eof) => break,
                    Ok(e) => {
                        w2.write_event(e.clone().into_owned()).unwrap();
                        w.write_event(e).unwrap()
                    }
                    Err(quick_xml::Error::IllFormed(_)) => {}
                    Err(_) => break,
                }
            }
            let (a, b) = (w.into_inner(), w2.into_inner());
            if a != b {
                return Err(format!("writing the events after into_owned() gives {:?}, writing them as read gives {:?}", lossy_head(&b), lossy_head(&a)));
            }
            Ok(a)
        })
        .map_err(|p| format!("panic while writing: {}", p))??;
        if written != canon {
            return Err(format!("writing the events back gives {:?}, expected {:?}", lossy_head(&written), lossy_head(&canon)));
        }
        let has_gap = obs.iter().any(|o| o.ev.is_err());
        if !has_gap && s.windows(3).all(|w| !w.eq_ignore_ascii_case(b"<!d")) && written != s {
            return Err(format!("read -> write does not reproduce the input: {:?}", lossy_head(&written)));
        }
    }
    Ok((obs.len(), kinds))
}

/// Raw reads through `Reader::stream()` are part of the same bookkeeping: a raw read of n bytes returns
/// exactly input[pos..pos+n] and advances the position by n (io::Read on the buffered reader, AsyncRead
/// read_exact over 1-byte pieces — several polls on one ReadBuf — on the async one).
fn stream_tiling(input: &[u8], is_async: bool, k: usize) -> Result<u64, String> {
    use crate::env::{block_on, Source};
    use tokio::io::AsyncReadExt;
    let script = Script::pieces(1);
    let horizon = 4 * input.len() + 64;
    let r = guarded_mut(|| -> Result<u64, String> {
        let mut reader = Reader::from_reader(Source::new(input, &script));
        apply_cfg(reader.config_mut(), NEUTRAL);
        let mut buf = Vec::new();
        let mut calls = 0u64;
        for _ in 0..2 * input.len() + 8 {
            buf.clear();
            let ev = if is_async {
                match block_on(reader.read_event_into_async(&mut buf), horizon) {
                    Some(r) => Ev::from_result(&r),
                    None => return Err("async read did not complete".into()),
                }
            } else {
                Ev::from_result(&reader.read_event_into(&mut buf))
            };
            calls += 1;
            if ev == Ev::Eof || matches!(&ev, Ev::Err(e) if e.is_syntax()) {
                return Ok(calls);
            }
            // after a text that ended at a `<` the reader has already taken that byte from the source: raw reads
            // are meaningful (and documented) between markup events only
            if matches!(ev, Ev::Text(_)) {
                continue;
            }
            let before = reader.buffer_position() as usize;
            let avail = input.len().saturating_sub(before).min(k);
            let mut bin = vec![0u8; avail];
            if avail > 0 {
                if is_async {
                    let mut st = reader.stream();
                    match block_on(AsyncReadExt::read_exact(&mut st, &mut bin), horizon) {
                        Some(Ok(_)) => {}
                        other => return Err(format!("async raw read of {} bytes at {} failed: {:?}", avail, before, other.map(|r| r.map(|_| ()))))
                    }
                } else {
                    let mut st = reader.stream();
                    std::io::Read::read_exact(&mut st, &mut bin).map_err(|e| format!("raw read of {} bytes at {} failed: {:?}", avail, before, e))?;
                }
                calls += 1;
                let after = reader.buffer_position() as usize;
                if bin != input[before..before + avail] || after != before + avail {
                    return Err(format!("a raw read of {} bytes at position {} returned {:?} and moved the position to {} (input there: {:?})", avail, before, lossy(&bin), after, lossy(&input[before..before + avail])));
                }
            }
        }
        Err("no Eof within the call bound".into())
    });
    match r {
        Ok(x) => x,
        Err(p) => Err(format!("panic: {}", p)),
    }
}

fn sweep(ctx: &Ctx, ln: u32, sp: &Space, buffered_cuts: usize, count_distinct: bool, a_len: usize) {
    let seed = ctx.seed;
    let mut desc = sp.desc.clone();
    desc["buffered_cut_sets"] = json!(format!("every cut set with <={} cuts", buffered_cuts));
    ctx.layer(&sp.name, ln, sp.total, desc, |i, acc| {
        let mut input = Vec::new();
        sp.get(i, &mut input);
        for cfg in [NEUTRAL, NEUTRAL | CHECK_COMMENTS] {
            acc.evaluations += 1;
            acc.traces += 1;
            match check_input(&input, cfg, None) {
                Ok((n, kinds)) => {
                    acc.transitions += n as u64;
                    if cfg == NEUTRAL {
                        acc.state(h64(&kinds));
                        if kinds.iter().any(|&k| k != 4 && k != 10) {
                            if count_distinct {
                                acc.nt_count += 1;
                            } else if input.len() > a_len || !input.iter().all(|b| SIGMA_M.contains(b)) {
                                acc.nontrivial(h64(&input));
                            }
                        }
                    }
                }
                Err(what) => acc.violation(
                    (ln, i * 2),
                    format!("input {:?} cfg [{}] slice reader: {}", lossy_head(&input), cfg_show(cfg), what),
                    json!({"input": bytes_json(&input), "cfg": cfg}),
                ),
            }
        }
        // the `read`/`used` bookkeeping of the buffered source
        let n = input.len();
        if buffered_cuts > 0 && n >= 2 && !matches!(input[0], 0xEF | 0xFE | 0xFF | 0) {
            let mut one = |cuts: &[usize]| {
                let sc = Script::cuts(cuts);
                acc.evaluations += 1;
                acc.traces += 1;
                match check_input(&input, NEUTRAL, Some(&sc)) {
                    Ok((k, _)) => acc.transitions += k as u64,
                    Err(what) => acc.violation(
                        (ln, i * 2 + 1),
                        format!("input {:?} buffered reader, cuts {:?}: {}", lossy_head(&input), cuts, what),
                        json!({"input": bytes_json(&input), "cfg": NEUTRAL, "script": sc.to_json()}),
                    ),
                }
            };
            for c1 in 1..n {
                one(&[c1]);
                if buffered_cuts >= 2 {
                    for c2 in c1 + 1..n {
                        one(&[c1, c2]);
                    }
                }
            }
        }
        if buffered_cuts > 0 && n >= 2 && n <= 64 && !matches!(input[0], 0xEF | 0xFE | 0xFF | 0) {
            for is_async in [false, true] {
                for k in [1usize, 3] {
                    acc.evaluations += 1;
                    acc.traces += 1;
                    match stream_tiling(&input, is_async, k) {
                        Ok(c) => acc.transitions += c,
                        Err(what) => acc.violation(
                            (ln, i * 2 + 1),
                            format!("input {:?} {} reader, raw reads of {} bytes through stream() after every event: {}", lossy_head(&input), if is_async { "async" } else { "buffered" }, k, what),
                            json!({"input": bytes_json(&input), "cfg": NEUTRAL, "stream": k, "async": is_async}),
                        ),
                    }
                }
            }
        }
        acc.sample(seed, i ^ ((ln as u64) << 40), || json!({"layer": sp.name, "input": lossy(&input)}));
    });
}

pub fn run(ctx: &Ctx) {
    ctx.set_rule(
        "inputs: layers A (all strings over the markup alphabet), C (atom sequences), D (contexts, with BOM variants), \
         E (sample documents); configuration neutral, with check_comments off and on. Oracle (self-consistency, no reference \
         lexer): input[pos_before..pos_after] == rendering of the returned event with its fixed delimiters; positions \
         never decrease; Eof position == BOM-stripped length; Writer::write_event over all successfully read events \
         == concatenation of those spans (DOCTYPE keyword canonicalised) and == the input itself when no error occurred \
         and no DOCTYPE is present. The same identity for the buffered reader on every <=2-cut schedule; raw reads of 1 and 3 bytes through Reader::stream() after every event (buffered: io::Read, async: read_exact over 1-byte pieces) return exactly the next input bytes and advance the position by their number. non-trivial = \
         stream contains markup or an error; distinct inputs. states = distinct event-kind sequences",
    );
    ctx.assume("trimming and empty-element expansion off, end-name checking off (as the property states)");
    let t = ctx.tier;
    let full = cfg!(feature = "full");
    let a_len = t.pick(6, if full { 7 } else { 5 }) as usize;
    if !full {
        sweep(ctx, 0, &raw("A.raw(min)", SIGMA_M, t.pick(5, 5)), 1, true, 5);
        sweep(ctx, 1, &context("Init.bom", &[b"", b"\xEF\xBB", b"\xEF\xBB\xBF", b"\xEF\xBB\xBF\xEF\xBB\xBF"], b"<?xml >a", t.pick(4, 5), &[b""], false), 0, false, 5);
        return;
    }
    sweep(ctx, 0, &raw("A.raw", SIGMA_M, a_len as u32), t.pick(1, 2), true, a_len);
    sweep(ctx, 1, &atoms("C.atoms", ATOMS_C, t.pick(4, 5)), t.pick(1, 2), false, a_len);
    let mut ln = 2;
    for sp in contexts(|m| t.pick(m.min(5), m), true) {
        sweep(ctx, ln, &sp, t.pick(1, 2), false, a_len);
        ln += 1;
    }
    sweep(ctx, ln, &ws_class(), 0, false, a_len);
    ln += 1;
    sweep(ctx, ln, &mid_bom(t.pick(3, 4)), 1, false, a_len);
    ln += 1;
    // size thresholds of the reader's spans and of the writer (every markup kind through every small
    // length and around every power of two); the chunked source with stretched inputs is C02's layer S
    sweep(ctx, ln, &stretch("S.stretch", STRETCH_READER, t.pick(80, 300), t.pick(13, 16), t.pick(5, 8)), 0, false, a_len);
    ln += 1;
    let docs = corpus();
    ctx.layer("E.corpus", ln, docs.len() as u64 * 2, json!({"files": docs.len()}), |i, acc| {
        let d = &docs[(i / 2) as usize];
        let cfg = if i % 2 == 0 { NEUTRAL } else { NEUTRAL | CHECK_COMMENTS };
        acc.evaluations += 1;
        acc.traces += 1;
        match check_input(&d.1, cfg, None) {
            Ok((n, kinds)) => {
                acc.transitions += n as u64;
                acc.state(h64(&kinds));
                acc.nontrivial(h64(&d.0));
            }
            Err(what) => acc.violation((ln, i), format!("corpus file {}: {}", d.0, what.chars().take(500).collect::<String>()), json!({"file": d.0, "cfg": cfg})),
        }
    });
}

pub fn replay(case: &Value) -> Result<(), String> {
    let input = if let Some(f) = case.get("file").and_then(|f| f.as_str()) {
        std::fs::read(format!("/repo/tests/documents/{}", f)).map_err(|e| e.to_string())?
    } else {
        bytes_from_json(&case["input"])
    };
    let cfg = case["cfg"].as_u64().unwrap_or(NEUTRAL as u64) as u8;
    let script = case.get("script").map(Script::from_json);
    let mut obs = Vec::new();
    match &script {
        None => run_slice(&input, cfg, 1, &mut obs),
        Some(sc) => {
            run_buffered(&input, cfg, sc, 1, false, &mut obs);
        }
    }
    println!("input: {:?} cfg [{}] script {:?}", lossy_head(&input), cfg_show(cfg), script);
    for o in show_trace(&obs) {
        println!("  {}", o.as_str().unwrap());
    }
    check_input(&input, cfg, script.as_ref()).map(|_| ())
}
