//! C20 — Overlapped lists: interleaving siblings does not change the result (`full` build).

use crate::common::*;
use quick_xml::de::Deserializer;
use quick_xml::DeError;
use serde::{Deserialize, Serialize};
use serde_json::{json, Value};
use std::num::NonZeroUsize;

#[derive(Serialize, Deserialize, PartialEq, Debug, Clone)]
pub struct N2 {
    #[serde(default)]
    pub a: Vec<String>,
    #[serde(default)]
    pub b: Vec<()>,
}

#[derive(Serialize, Deserialize, PartialEq, Debug, Clone)]
pub struct O {
    #[serde(rename = "@id")]
    pub id: u8,
    #[serde(default)]
    pub a: Vec<String>,
    #[serde(default)]
    pub b: Vec<N2>,
    #[serde(default)]
    pub c: Vec<()>,
    /// a scalar whose name has a list field's name as a proper prefix
    pub ab: String,
}

/// One child element: its field name, its XML and its number of deserializer events.
#[derive(Clone, Debug)]
pub struct Child {
    pub name: char,
    pub xml: String,
    pub events: usize,
    /// for nested structs: the peak of skipped events its own deserialization needs
    pub inner_peak: usize,
}

fn leaf(name: char, text: &str) -> Child {
    if text.is_empty() {
        Child { name, xml: format!("<{}/>", name), events: 2, inner_peak: 0 }
    } else {
        Child { name, xml: format!("<{0}>{1}</{0}>", name, text), events: 3, inner_peak: 0 }
    }
}

/// Reference count (written from the documentation of `event_buffer_size`): while the items of one
/// list are collected, every sibling that is not an item of that list and lies between the list's
/// first item and the end of the parent has to be held; a nested struct deserialized meanwhile adds
/// what its own lists need on top. Returns the peak number of simultaneously held events.
pub fn reference_peak(children: &[Child], is_list: &dyn Fn(char) -> bool) -> usize {
    let mut remaining: Vec<Child> = children.to_vec();
    let mut peak = 0;
    while !remaining.is_empty() {
        let k = remaining[0].name;
        if is_list(k) {
            let mut held = 0;
            let mut rest = Vec::new();
            for ch in remaining.into_iter() {
                if ch.name == k {
                    peak = peak.max(held + ch.inner_peak);
                } else {
                    held += ch.events;
                    peak = peak.max(held);
                    rest.push(ch);
                }
            }
            remaining = rest;
        } else {
            let ch = remaining.remove(0);
            peak = peak.max(ch.inner_peak);
        }
    }
    peak
}

/// All order-preserving interleavings of groups (each group keeps its internal order).
fn interleavings(groups: &[Vec<Child>]) -> Vec<Vec<Child>> {
    fn rec(groups: &[Vec<Child>], pos: &mut Vec<usize>, cur: &mut Vec<Child>, out: &mut Vec<Vec<Child>>, total: usize) {
        if cur.len() == total {
            out.push(cur.clone());
            return;
        }
        for g in 0..groups.len() {
            if pos[g] < groups[g].len() {
                cur.push(groups[g][pos[g]].clone());
                pos[g] += 1;
                rec(groups, pos, cur, out, total);
                pos[g] -= 1;
                cur.pop();
            }
        }
    }
    let total = groups.iter().map(|g| g.len()).sum();
    let mut out = Vec::new();
    rec(groups, &mut vec![0; groups.len()], &mut Vec::new(), &mut out, total);
    out
}

/// All documents (as child lists) of an N2 item: every interleaving of its a- and b-children.
fn n2_variants(n: &N2) -> Vec<Child> {
    let ga: Vec<Child> = n.a.iter().map(|s| leaf('a', s)).collect();
    let gb: Vec<Child> = n.b.iter().map(|_| leaf('b', "")).collect();
    interleavings(&[ga, gb])
        .into_iter()
        .map(|kids| {
            let inner: String = kids.iter().map(|k| k.xml.as_str()).collect();
            let events = 2 + kids.iter().map(|k| k.events).sum::<usize>();
            let inner_peak = reference_peak(&kids, &|c| c == 'a' || c == 'b');
            Child { name: 'b', xml: if kids.is_empty() { "<b/>".to_string() } else { format!("<b>{}</b>", inner) }, events, inner_peak }
        })
        .collect()
}

fn values(level: usize) -> Vec<O> {
    let max = if level >= 1 { 3 } else { 2 };
    let strs = ["x", ""];
    let mut a_lists: Vec<Vec<String>> = vec![vec![]];
    for l in 1..=max {
        // all strings lists of length l over {x, ""}, but keep the count small: vary the last element only
        for last in strs {
            let mut v: Vec<String> = vec!["x".to_string(); l - 1];
            v.push(last.to_string());
            a_lists.push(v);
        }
    }
    let n2s = [N2 { a: vec![], b: vec![] }, N2 { a: vec!["p".into()], b: vec![()] }, N2 { a: vec!["p".into(), "q".into()], b: vec![()] }];
    let mut b_lists: Vec<Vec<N2>> = vec![vec![]];
    for x in &n2s {
        b_lists.push(vec![x.clone()]);
        for y in &n2s {
            b_lists.push(vec![x.clone(), y.clone()]);
        }
    }
    if level >= 1 {
        b_lists.push(vec![n2s[2].clone(), n2s[1].clone(), n2s[2].clone()]);
    }
    let mut out = Vec::new();
    for a in &a_lists {
        for b in &b_lists {
            for c in 0..=max.min(2) {
                out.push(O { id: 7, a: a.clone(), b: b.clone(), c: vec![(); c], ab: "v".into() });
            }
        }
    }
    out
}

fn deserialize_reader(xml: &str, limit: Option<usize>) -> Result<Result<O, String>, String> {
    guarded(|| {
        let script = crate::env::Script::pieces(3);
        let mut de = Deserializer::from_reader(crate::env::Source::new(xml.as_bytes(), &script));
        de.event_buffer_size(limit.and_then(NonZeroUsize::new));
        match O::deserialize(&mut de) {
            Ok(v) => Ok(v),
            Err(DeError::TooManyEvents(_)) => Err("TooManyEvents".to_string()),
            Err(e) => Err(format!("{:?}", e)),
        }
    })
    .map_err(|p| format!("panic: {}", p))
}

fn deserialize(xml: &str, limit: Option<usize>) -> Result<Result<O, String>, String> {
    guarded(|| {
        let mut de = Deserializer::from_str(xml);
        de.event_buffer_size(limit.and_then(NonZeroUsize::new));
        match O::deserialize(&mut de) {
            Ok(v) => Ok(v),
            Err(DeError::TooManyEvents(_)) => Err("TooManyEvents".to_string()),
            Err(e) => Err(format!("{:?}", e)),
        }
    })
    .map_err(|p| format!("panic: {}", p))
}

/// Checks one interleaved document against every limit. Returns the number of deserializations.
fn check_doc(v: &O, xml: &str, ref_peak: usize, total_events: usize, slack: &mut bool) -> Result<u64, String> {
    let mut n = 0u64;
    match deserialize(xml, None)? {
        Ok(got) if got == *v => {}
        other => return Err(format!("without a limit the document deserializes as {:?}", other)),
    }
    n += 1;
    // the copying deserializer (from_reader) has its own replay path: same verdicts at the decisive limits
    // the largest limits must behave like no limit at all ("raising the limit never turns success into failure")
    for huge in [usize::MAX, usize::MAX - 1, usize::MAX / 2] {
        n += 1;
        match deserialize(xml, Some(huge))? {
            Ok(got) if got == *v => {}
            other => return Err(format!("with event_buffer_size({}) the document deserializes as {:?}", huge, other)),
        }
    }
    for limit in [None, Some(ref_peak.max(1)), Some(ref_peak.max(2) - 1)] {
        n += 1;
        let a = deserialize(xml, limit)?;
        let b = deserialize_reader(xml, limit)?;
        if a != b {
            return Err(format!("with limit {:?} from_str gives {:?} but from_reader gives {:?}", limit, a, b));
        }
    }
    let mut succeeded_at: Option<usize> = None;
    for limit in 1..=total_events + 1 {
        n += 1;
        match deserialize(xml, Some(limit))? {
            Ok(got) => {
                if got != *v {
                    return Err(format!("with event_buffer_size({}) the document deserializes as {:?}", limit, got));
                }
                if limit < ref_peak {
                    return Err(format!("{} skipped events have to be held, but deserialization succeeded with event_buffer_size({})", ref_peak, limit));
                }
                succeeded_at.get_or_insert(limit);
            }
            Err(e) if e == "TooManyEvents" => {
                if let Some(s) = succeeded_at {
                    return Err(format!("succeeded with event_buffer_size({}) but fails with the larger limit {}", s, limit));
                }
                // The property only states the other direction (too small a limit must fail). That a limit
                // equal to the reference count suffices is observed (counter `exact_at_reference_peak`), not
                // demanded; only a limit that no document of this size can exceed has to succeed.
                if limit > total_events {
                    return Err(format!("the document has only {} events, but event_buffer_size({}) fails with TooManyEvents", total_events, limit));
                }
                if limit >= ref_peak {
                    *slack = true;
                }
            }
            Err(e) => return Err(format!("with event_buffer_size({}) deserialization fails with {}", limit, e)),
        }
    }
    Ok(n)
}

pub fn run(ctx: &Ctx) {
    ctx.set_rule(
        "values of a struct with an attribute, three list fields (a: strings incl. empty, b: nested structs that have lists named a and b \
         themselves, c: units) and a scalar field, 0..2/3 items per list; for each value EVERY order-preserving interleaving of its \
         children (and of the children of each nested item) is written as a document and deserialized without a limit and with every \
         event_buffer_size from 1 to (events of the document + 1); from_reader (pieces of 3) must agree with from_str without a limit and at the two limits around the reference count. Oracle: unlimited => the value whose contiguous serialization was \
         interleaved (checked against to_string); limited => that value or TooManyEvents, monotone in the limit, it fails whenever the limit is below the reference count of \
         simultaneously held skipped events, and it succeeds when the limit exceeds the document's event count (that the reference \
         count itself suffices is measured — counter exact_at_reference_peak — not demanded). evaluations = deserializations; traces = \
         interleaved documents; non-trivial = documents that need at least one skipped event; states = distinct (events, peak) pairs",
    );
    ctx.assume("the reference count follows the documentation of event_buffer_size: siblings that are not items of the list being collected are held until the parent ends; nested collections add up");
    let t = ctx.tier;
    let vals = values(t.pick(0, 1));
    let seed = ctx.seed;
    ctx.layer("values_x_interleavings_x_limits", 0, vals.len() as u64, json!({"values": vals.len()}), |i, acc| {
        let v = &vals[i as usize];
        // contiguous serialization must be the field-order concatenation
        let ga: Vec<Child> = v.a.iter().map(|s| leaf('a', s)).collect();
        // unit items: the first one is written with its own name nested twice inside (content of a unit is ignored)
        let gc: Vec<Child> = v.c.iter().enumerate().map(|(k, _)| if k == 0 { Child { name: 'c', xml: "<c><c><c/>t</c></c>".into(), events: 7, inner_peak: 0 } } else { leaf('c', "") }).collect();
        let gs = vec![Child { name: 's', xml: format!("<ab>{}</ab>", v.ab), events: 3, inner_peak: 0 }];
        // every combination of inner interleavings of the b items
        let mut gb_variants: Vec<Vec<Child>> = vec![vec![]];
        for n in &v.b {
            let vars = n2_variants(n);
            let mut next = Vec::new();
            for base in &gb_variants {
                for var in &vars {
                    let mut x = base.clone();
                    x.push(var.clone());
                    next.push(x);
                }
            }
            gb_variants = next;
        }
        let contiguous = format!(
            "<O id=\"7\">{}{}{}{}</O>",
            ga.iter().map(|c| c.xml.as_str()).collect::<String>(),
            gb_variants[0].iter().map(|c| c.xml.as_str()).collect::<String>(),
            gc.iter().map(|c| c.xml.as_str()).collect::<String>(),
            gs[0].xml
        );
        match quick_xml::se::to_string(v).map(|s| s.replacen("<c/>", "<c><c><c/>t</c></c>", 1)) {
            Ok(s) if s == contiguous => {}
            other => {
                acc.violation((0, i), format!("MACHINERY: contiguous serialization of {:?} is {:?}, the harness builds {:?}", v, other, contiguous), json!({"value": i}));
                return;
            }
        }
        for gb in &gb_variants {
            for kids in interleavings(&[ga.clone(), gb.clone(), gc.clone(), gs.clone()]) {
                let xml = format!("<O id=\"7\">{}</O>", kids.iter().map(|c| c.xml.as_str()).collect::<String>());
                let total: usize = kids.iter().map(|c| c.events).sum();
                let peak = reference_peak(&kids, &|c| c != 's');
                acc.traces += 1;
                let mut slack = false;
                match check_doc(v, &xml, peak, total, &mut slack) {
                    Ok(n) => {
                        acc.count(if slack { "needs_more_than_reference_peak" } else { "exact_at_reference_peak" }, 1);
                        acc.evaluations += n;
                        acc.transitions += n;
                        if peak > 0 {
                            acc.nt_count += 1;
                        }
                        acc.state(h64(&(total, peak)));
                        acc.sample(seed, h64(&xml), || json!({"document": xml, "events": total, "reference_peak": peak}));
                    }
                    Err(what) => acc.violation((0, i), format!("value {:?}, document {:?} (reference peak {}): {}", v, xml, peak, what), json!({"xml": xml, "value": i, "peak": peak, "events": total, "level": t.pick(0, 1)})),
                }
            }
        }
    });
    count_layer(ctx);
    nil_layer(ctx);
    value_layer(ctx);
    tree_layer(ctx);
}

/// Size thresholds of the replay queues: long lists. The decisive limits only.
const COUNT_SHAPES: [&str; 5] = [
    "(<a>x</a><c/>)^n <ab>",
    "<c/>^n <a>x</a>^n <ab>",
    "<ab> (<a>x</a><b><a>p</a><b/><a>q</a></b><c/>)^n",
    "<a>x</a> <c/>^n <a>x</a> <ab> <c/>",
    "(<b><b/><a>p</a></b>)^n <ab> <a/>^n",
];

fn count_doc(shape: usize, n: usize) -> (O, Vec<Child>) {
    let n2 = |inner: &str, a: Vec<&str>, nb: usize, kids: Vec<Child>| {
        let events = 2 + kids.iter().map(|k| k.events).sum::<usize>();
        let inner_peak = reference_peak(&kids, &|c| c == 'a' || c == 'b');
        (N2 { a: a.into_iter().map(String::from).collect(), b: vec![(); nb] }, Child { name: 'b', xml: format!("<b>{}</b>", inner), events, inner_peak })
    };
    let s = Child { name: 's', xml: "<ab>v</ab>".into(), events: 3, inner_peak: 0 };
    let mut kids = Vec::new();
    let mut v = O { id: 7, a: vec![], b: vec![], c: vec![], ab: "v".into() };
    match shape {
        0 => {
            for _ in 0..n {
                kids.push(leaf('a', "x"));
                kids.push(leaf('c', ""));
            }
            kids.push(s);
            v.a = vec!["x".into(); n];
            v.c = vec![(); n];
        }
        1 => {
            for _ in 0..n {
                kids.push(leaf('c', ""));
            }
            for _ in 0..n {
                kids.push(leaf('a', "x"));
            }
            kids.push(s);
            v.a = vec!["x".into(); n];
            v.c = vec![(); n];
        }
        2 => {
            kids.push(s);
            for _ in 0..n {
                kids.push(leaf('a', "x"));
                let (val, ch) = n2("<a>p</a><b/><a>q</a>", vec!["p", "q"], 1, vec![leaf('a', "p"), leaf('b', ""), leaf('a', "q")]);
                v.b.push(val);
                kids.push(ch);
                kids.push(leaf('c', ""));
            }
            v.a = vec!["x".into(); n];
            v.c = vec![(); n];
        }
        3 => {
            kids.push(leaf('a', "x"));
            for _ in 0..n {
                kids.push(leaf('c', ""));
            }
            kids.push(leaf('a', "x"));
            kids.push(s);
            kids.push(leaf('c', ""));
            v.a = vec!["x".into(); 2];
            v.c = vec![(); n + 1];
        }
        _ => {
            for _ in 0..n {
                let (val, ch) = n2("<b/><a>p</a>", vec!["p"], 1, vec![leaf('b', ""), leaf('a', "p")]);
                v.b.push(val);
                kids.push(ch);
            }
            kids.push(s);
            for _ in 0..n {
                kids.push(leaf('a', ""));
            }
            v.a = vec!["".into(); n];
        }
    }
    (v, kids)
}

fn check_counts(v: &O, xml: &str, peak: usize, total: usize) -> Result<u64, String> {
    let mut n = 0u64;
    let mut limits: Vec<Option<usize>> = vec![None];
    for l in [1, 2, peak.saturating_sub(2), peak.saturating_sub(1), peak, peak + 1, total, total + 1] {
        if l >= 1 {
            limits.push(Some(l));
        }
    }
    let mut ok_at: Option<usize> = None;
    let mut sorted: Vec<Option<usize>> = limits.clone();
    sorted.sort();
    sorted.dedup();
    for limit in sorted {
        n += 2;
        let a = deserialize(xml, limit)?;
        let b = deserialize_reader(xml, limit)?;
        let show = |r: &Result<O, String>| match r {
            Ok(x) if x == v => "Ok(the value)".to_string(),
            Ok(_) => "Ok(ANOTHER VALUE)".to_string(),
            Err(e) => format!("Err({})", e),
        };
        if a != b {
            return Err(format!("with limit {:?} from_str gives {} but from_reader gives {}", limit, show(&a), show(&b)));
        }
        match (limit, a) {
            (_, Ok(got)) if got != *v => return Err(format!("with limit {:?} the document deserializes as another value (lists of {} / {} / {} items)", limit, got.a.len(), got.b.len(), got.c.len())),
            (None, Ok(_)) => {}
            (None, Err(e)) => return Err(format!("without a limit deserialization fails with {}", e)),
            (Some(l), Ok(_)) => {
                if l < peak {
                    return Err(format!("{} skipped events have to be held, but deserialization succeeded with event_buffer_size({})", peak, l));
                }
                ok_at.get_or_insert(l);
            }
            (Some(l), Err(e)) if e == "TooManyEvents" => {
                if let Some(s) = ok_at {
                    return Err(format!("succeeded with event_buffer_size({}) but fails with the larger limit {}", s, l));
                }
                if l > total {
                    return Err(format!("the document has only {} events, but event_buffer_size({}) fails with TooManyEvents", total, l));
                }
            }
            (Some(l), Err(e)) => return Err(format!("with event_buffer_size({}) deserialization fails with {}", l, e)),
        }
    }
    Ok(n)
}

/// A struct with list fields and an optional element presented as `xsi:nil`: the position of the nil
/// element among the list items must not matter.
#[derive(Serialize, Deserialize, PartialEq, Debug, Clone)]
pub struct WithNil {
    #[serde(default)]
    pub a: Vec<String>,
    #[serde(default)]
    pub n: Option<String>,
    #[serde(default)]
    pub c: Vec<()>,
}

fn nil_layer(ctx: &Ctx) {
    const XSI: &str = "http://www.w3.org/2001/XMLSchema-instance";
    let known = Known::load();
    // (number of a items, number of c items, where xsi is declared: 0 root, 1 on the element itself)
    let total = 4 * 3 * 2;
    ctx.layer("nil_element_position", 2, total, json!({"type": "{a: Vec<String>, n: Option<String>, c: Vec<()>}", "a_items": "0..=3", "c_items": "0..=2", "xsi_declared": ["on the root", "on the element"], "positions": "the nil element at every position of every interleaving of the a and c items"}), |i, acc| {
        let na = (i % 4) as usize;
        let nc = ((i / 4) % 3) as usize;
        let local = i / 12 == 1;
        let ga: Vec<Child> = (0..na).map(|k| leaf('a', &format!("x{}", k))).collect();
        let gc: Vec<Child> = (0..nc).map(|_| leaf('c', "")).collect();
        let want = WithNil { a: (0..na).map(|k| format!("x{}", k)).collect(), n: None, c: vec![(); nc] };
        let nil = if local { format!("<n xmlns:xsi=\"{}\" xsi:nil=\"true\"/>", XSI) } else { "<n xsi:nil=\"true\"/>".to_string() };
        let root = if local { "<r>".to_string() } else { format!("<r xmlns:xsi=\"{}\">", XSI) };
        for kids in interleavings(&[ga.clone(), gc.clone()]) {
            for pos in 0..=kids.len() {
                let mut xml = root.clone();
                for (k, ch) in kids.iter().enumerate() {
                    if k == pos {
                        xml.push_str(&nil);
                    }
                    xml.push_str(&ch.xml);
                }
                if pos == kids.len() {
                    xml.push_str(&nil);
                }
                xml.push_str("</r>");
                acc.evaluations += 2;
                acc.traces += 1;
                acc.transitions += 2;
                for via_reader in [false, true] {
                    let got = guarded(|| {
                        if via_reader {
                            quick_xml::de::from_reader::<_, WithNil>(xml.as_bytes()).map_err(|e| format!("{:?}", e))
                        } else {
                            quick_xml::de::from_str::<WithNil>(&xml).map_err(|e| format!("{:?}", e))
                        }
                    });
                    match got {
                        Ok(Ok(v)) if v == want => acc.nt_count += 1,
                        // F17: a nil element that was skipped (it follows an item of a list that is being collected) and is
                        // replayed later resolves its prefix in the scope the reader has reached by then
                        Ok(Ok(v)) if known.is_open("F17") && pos > 0 && v.n.as_deref() == Some("") && v.a == want.a && v.c == want.c => {
                            acc.known("F17", || format!("{:?} gives n: Some(\"\")", xml));
                        }
                        other => acc.violation((2, i), format!("document {:?} ({}) deserializes as {:?}, with the nil element in front of the list items it is {:?}", xml, if via_reader { "from_reader" } else { "from_str" }, other, want), json!({"nil_doc": xml})),
                    }
                }
            }
        }
    });
}

/// A scalar `$value` enum field next to list fields: its element is skipped and replayed like any other
/// sibling when it follows a list item.
#[derive(Serialize, Deserialize, PartialEq, Debug, Clone)]
pub enum Pick {
    Alpha,
    Beta,
}
#[derive(Serialize, Deserialize, PartialEq, Debug, Clone)]
pub struct WithValue {
    #[serde(default)]
    pub a: Vec<String>,
    #[serde(default)]
    pub c: Vec<()>,
    #[serde(rename = "$value")]
    pub v: Pick,
}

fn value_layer(ctx: &Ctx) {
    let total = 4 * 3 * 2;
    ctx.layer("value_enum_position", 3, total, json!({"type": "{a: Vec<String>, c: Vec<()>, $value: enum {Alpha, Beta}}", "a_items": "0..=3", "c_items": "0..=2", "positions": "the variant element at every position of every interleaving of the a and c items", "limits": ["none", 1000]}), |i, acc| {
        let na = (i % 4) as usize;
        let nc = ((i / 4) % 3) as usize;
        let pick = if i / 12 == 0 { Pick::Alpha } else { Pick::Beta };
        let ga: Vec<Child> = (0..na).map(|k| leaf('a', &format!("x{}", k))).collect();
        let gc: Vec<Child> = (0..nc).map(|_| leaf('c', "")).collect();
        let want = WithValue { a: (0..na).map(|k| format!("x{}", k)).collect(), c: vec![(); nc], v: pick.clone() };
        let elem = if pick == Pick::Alpha { "<Alpha/>" } else { "<Beta></Beta>" };
        for kids in interleavings(&[ga.clone(), gc.clone()]) {
            for pos in 0..=kids.len() {
                let mut xml = String::from("<r>");
                for (k, ch) in kids.iter().enumerate() {
                    if k == pos {
                        xml.push_str(elem);
                    }
                    xml.push_str(&ch.xml);
                }
                if pos == kids.len() {
                    xml.push_str(elem);
                }
                xml.push_str("</r>");
                for limit in [None, NonZeroUsize::new(1000)] {
                    for via_reader in [false, true] {
                        acc.evaluations += 1;
                        acc.transitions += 1;
                        let got = guarded(|| {
                            if via_reader {
                                let mut de = Deserializer::from_reader(xml.as_bytes());
                                de.event_buffer_size(limit);
                                WithValue::deserialize(&mut de).map_err(|e| format!("{:?}", e))
                            } else {
                                let mut de = Deserializer::from_str(&xml);
                                de.event_buffer_size(limit);
                                WithValue::deserialize(&mut de).map_err(|e| format!("{:?}", e))
                            }
                        });
                        match got {
                            Ok(Ok(v)) if v == want => acc.nt_count += 1,
                            other => acc.violation((3, i), format!("document {:?} ({}, limit {:?}) deserializes as {:?}, expected {:?}", xml, if via_reader { "from_reader" } else { "from_str" }, limit, other, want), json!({"value_doc": xml})),
                        }
                    }
                }
                acc.traces += 1;
            }
        }
    });
}

/// Same-named elements nested inside a skipped element, with different attributes and different
/// presentations (`<node/>`, `<node></node>`, with children).
#[derive(Serialize, Deserialize, PartialEq, Debug, Clone)]
pub struct Node {
    #[serde(rename = "@id")]
    pub id: u8,
    #[serde(default)]
    pub node: Vec<Node>,
}
#[derive(Serialize, Deserialize, PartialEq, Debug, Clone)]
pub struct Tree {
    #[serde(default)]
    pub node: Vec<Node>,
    #[serde(default)]
    pub flag: Vec<()>,
    pub s: String,
}

fn node_xml(n: &Node) -> String {
    if n.node.is_empty() {
        if n.id % 2 == 0 { format!("<node id=\"{}\"/>", n.id) } else { format!("<node id=\"{}\"></node>", n.id) }
    } else {
        format!("<node id=\"{}\">{}</node>", n.id, n.node.iter().map(node_xml).collect::<String>())
    }
}
fn node_events(n: &Node) -> usize {
    2 + n.node.iter().map(node_events).sum::<usize>()
}

fn tree_layer(ctx: &Ctx) {
    let leaf_n = |id: u8| Node { id, node: vec![] };
    let shapes: Vec<Vec<Node>> = vec![
        vec![Node { id: 1, node: vec![leaf_n(11)] }],
        vec![Node { id: 1, node: vec![leaf_n(11), leaf_n(12)] }, leaf_n(2)],
        vec![leaf_n(2), Node { id: 3, node: vec![Node { id: 31, node: vec![leaf_n(32)] }] }],
        vec![Node { id: 1, node: vec![leaf_n(1)] }, Node { id: 1, node: vec![leaf_n(1)] }],
    ];
    ctx.layer("same_name_nesting_with_attributes", 4, shapes.len() as u64 * 3, json!({"type": "Tree {node: Vec<Node>, flag: Vec<()>, s}, Node {@id, node: Vec<Node>}", "shapes": shapes.len(), "flags": "0..=2", "limits": ["none", 1000]}), |i, acc| {
        let nodes = &shapes[(i / 3) as usize];
        let nf = (i % 3) as usize;
        let want = Tree { node: nodes.clone(), flag: vec![(); nf], s: "v".into() };
        let gn: Vec<Child> = nodes.iter().map(|n| Child { name: 'n', xml: node_xml(n), events: node_events(n), inner_peak: 0 }).collect();
        let gf: Vec<Child> = (0..nf).map(|_| Child { name: 'f', xml: "<flag/>".into(), events: 2, inner_peak: 0 }).collect();
        let gs = vec![Child { name: 's', xml: "<s>v</s>".into(), events: 3, inner_peak: 0 }];
        for kids in interleavings(&[gn.clone(), gf.clone(), gs.clone()]) {
            let xml = format!("<Tree>{}</Tree>", kids.iter().map(|c| c.xml.as_str()).collect::<String>());
            acc.traces += 1;
            for limit in [None, NonZeroUsize::new(1000)] {
                for via_reader in [false, true] {
                    acc.evaluations += 1;
                    acc.transitions += 1;
                    let got = guarded(|| {
                        if via_reader {
                            let mut de = Deserializer::from_reader(xml.as_bytes());
                            de.event_buffer_size(limit);
                            Tree::deserialize(&mut de).map_err(|e| format!("{:?}", e))
                        } else {
                            let mut de = Deserializer::from_str(&xml);
                            de.event_buffer_size(limit);
                            Tree::deserialize(&mut de).map_err(|e| format!("{:?}", e))
                        }
                    });
                    match got {
                        Ok(Ok(v)) if v == want => acc.nt_count += 1,
                        other => acc.violation((4, i), format!("document {:?} ({}, limit {:?}) deserializes as {:?}, expected {:?}", xml, if via_reader { "from_reader" } else { "from_str" }, limit, other, want), json!({"tree_doc": xml})),
                    }
                }
            }
        }
    });
}

fn count_layer(ctx: &Ctx) {
    let t = ctx.tier;
    let ns: Vec<u32> = crate::inputs::size_list(t.pick(24, 80), t.pick(12, 16));
    let (nn, nsh) = (ns.len() as u64, COUNT_SHAPES.len() as u64);
    ctx.layer("long_lists", 1, nn * nsh, json!({"shapes": COUNT_SHAPES, "n": format!("0..=dense and around the powers of two ({} sizes)", nn), "limits": "none, 1, 2, peak-2 .. peak+1, events, events+1; from_str and from_reader"}), |i, acc| {
        let n = ns[(i % nn) as usize] as usize;
        let shape = (i / nn) as usize;
        let (v, kids) = count_doc(shape, n);
        let xml = format!("<O id=\"7\">{}</O>", kids.iter().map(|c| c.xml.as_str()).collect::<String>());
        let total: usize = kids.iter().map(|c| c.events).sum();
        let peak = reference_peak(&kids, &|c| c != 's');
        acc.traces += 1;
        match check_counts(&v, &xml, peak, total) {
            Ok(k) => {
                acc.evaluations += k;
                acc.transitions += k;
                acc.nt_count += 1;
                acc.state(h64(&(total.min(64), peak.min(64))));
            }
            Err(what) => acc.violation((1, i), format!("document {} with n = {} ({} events, reference peak {}): {}", COUNT_SHAPES[shape], n, total, peak, what), json!({"count_shape": shape, "n": n})),
        }
    });
}

pub fn replay(case: &Value) -> Result<(), String> {
    if let Some(doc) = case.get("tree_doc").and_then(|d| d.as_str()) {
        let r = quick_xml::de::from_str::<Tree>(doc);
        println!("document {:?}\nfrom_str => {:?}", doc, r);
        return r.map(|_| ()).map_err(|e| format!("{:?}", e));
    }
    if let Some(doc) = case.get("value_doc").and_then(|d| d.as_str()) {
        let r = quick_xml::de::from_str::<WithValue>(doc);
        println!("document {:?}\nfrom_str => {:?}", doc, r);
        return r.map(|_| ()).map_err(|e| format!("{:?}", e));
    }
    if let Some(doc) = case.get("nil_doc").and_then(|d| d.as_str()) {
        let r = quick_xml::de::from_str::<WithNil>(doc);
        println!("document {:?}\nfrom_str => {:?}", doc, r);
        return match r {
            Ok(v) if v.n.is_none() => Ok(()),
            other => Err(format!("{:?}", other)),
        };
    }
    if let Some(shape) = case.get("count_shape").and_then(|s| s.as_u64()) {
        let n = case["n"].as_u64().unwrap_or(0) as usize;
        let (v, kids) = count_doc(shape as usize, n);
        let xml = format!("<O id=\"7\">{}</O>", kids.iter().map(|c| c.xml.as_str()).collect::<String>());
        let total: usize = kids.iter().map(|c| c.events).sum();
        let peak = reference_peak(&kids, &|c| c != 's');
        println!("document {} with n = {}: {} events, reference peak {}", COUNT_SHAPES[shape as usize], n, total, peak);
        return check_counts(&v, &xml, peak, total).map(|_| ());
    }
    let xml = case["xml"].as_str().ok_or("no xml")?;
    let vals = values(case["level"].as_u64().unwrap_or(0) as usize);
    let v = &vals[case["value"].as_u64().unwrap() as usize];
    let peak = case["peak"].as_u64().unwrap() as usize;
    let total = case["events"].as_u64().unwrap() as usize;
    println!("value {:?}\ndocument {:?}\nreference peak {} of {} events", v, xml, peak, total);
    for l in 1..=total + 1 {
        println!("  limit {} -> {:?}", l, deserialize(xml, Some(l)).map(|r| r.map(|_| "Ok(value)")));
    }
    check_doc(v, xml, peak, total, &mut false).map(|_| ())
}
