//! C15 — Deserialized values do not depend on lexical presentation.
//!
//! Base documents are the serializations of the C06 value set; every information-preserving
//! rewrite is applied at EVERY applicable site (singly, and in all ordered pairs on small
//! documents); the rewritten document must deserialize to the same value.

use crate::common::*;
use crate::models::lex::{is_ws, lex, Kind, Tok};
use crate::props::c06::{de, ser, SerCfg};
use crate::types::*;
use serde_json::{json, Value};

#[derive(Clone, Debug)]
pub struct Rewrite {
    pub name: &'static str,
    pub at: usize,
    pub doc: String,
}

struct Shape<'a> {
    s: &'a [u8],
    toks: Vec<Tok>,
    /// for every token: index of the enclosing element's start token (usize::MAX at top level)
    parent: Vec<usize>,
    /// for start tokens: true if the element has element children and no text children
    element_only: Vec<bool>,
}

fn shape(doc: &str) -> Option<Shape<'_>> {
    let s = doc.as_bytes();
    let lx = lex(s);
    if lx.fatal.is_some() {
        return None;
    }
    let toks = lx.toks;
    let mut parent = vec![usize::MAX; toks.len()];
    let mut has_elem = vec![false; toks.len()];
    let mut has_text = vec![false; toks.len()];
    let mut stack: Vec<usize> = Vec::new();
    for (i, t) in toks.iter().enumerate() {
        let top = stack.last().copied().unwrap_or(usize::MAX);
        parent[i] = top;
        match t.kind {
            Kind::Start => {
                if top != usize::MAX {
                    has_elem[top] = true;
                }
                stack.push(i);
            }
            Kind::Empty => {
                if top != usize::MAX {
                    has_elem[top] = true;
                }
            }
            Kind::End => {
                stack.pop();
                parent[i] = stack.last().copied().unwrap_or(usize::MAX);
            }
            Kind::Text | Kind::CData => {
                if top != usize::MAX {
                    has_text[top] = true;
                }
            }
            _ => {}
        }
    }
    let element_only = (0..toks.len()).map(|i| has_elem[i] && !has_text[i]).collect();
    Some(Shape { s, toks, parent, element_only })
}

fn splice(s: &[u8], at: usize, del: usize, ins: &[u8]) -> Option<String> {
    let mut v = s[..at].to_vec();
    v.extend_from_slice(ins);
    v.extend_from_slice(&s[at + del..]);
    String::from_utf8(v).ok()
}

/// (start, eq, value start, end) of the attribute pieces ` key = "value"` of a tag token, in document
/// offsets: `start` includes the leading blanks, `value start` is the opening quote.
fn attr_spans(s: &[u8], t: &Tok) -> Vec<(usize, usize, usize, usize)> {
    let mut v = Vec::new();
    let mut p = t.content.start + t.name_len;
    let end = t.content.end;
    loop {
        let st = p;
        while p < end && is_ws(s[p]) {
            p += 1;
        }
        if p >= end {
            break;
        }
        while p < end && s[p] != b'=' {
            p += 1;
        }
        if p >= end {
            break;
        }
        let eq = p;
        p += 1;
        while p < end && is_ws(s[p]) {
            p += 1;
        }
        if p >= end {
            break;
        }
        let vs = p;
        let q = s[p];
        if q != b'"' && q != b'\'' {
            break;
        }
        p += 1;
        while p < end && s[p] != q {
            p += 1;
        }
        if p >= end {
            break;
        }
        p += 1;
        v.push((st, eq, vs, p));
    }
    v
}

/// All single rewrites of `doc` that preserve its information for a value of type `T`.
pub fn rewrites<T: Fam>(doc: &str) -> Vec<Rewrite> {
    let mut out = Vec::new();
    let Some(sh) = shape(doc) else { return out };
    let s = sh.s;
    let mut push = |name: &'static str, at: usize, d: Option<String>| {
        if let Some(d) = d {
            out.push(Rewrite { name, at, doc: d });
        }
    };
    // R1: comment / PI at every position outside tags and outside references (also inside text)
    for t in &sh.toks {
        let positions: Vec<usize> = match t.kind {
            Kind::Text => {
                let mut v = Vec::new();
                let mut in_ref = false;
                for p in t.span.start..=t.span.end {
                    if p < t.span.end && s[p] == b'&' {
                        v.push(p);
                        in_ref = true;
                        continue;
                    }
                    if in_ref {
                        if p < t.span.end && s[p] == b';' {
                            in_ref = false;
                        }
                        continue;
                    }
                    if doc.is_char_boundary(p) {
                        v.push(p);
                    }
                }
                v
            }
            _ => vec![t.span.start, t.span.end],
        };
        for p in positions {
            push("insert comment", p, splice(s, p, 0, b"<!--c-->"));
            push("insert PI", p, splice(s, p, 0, b"<?p d?>"));
        }
    }
    // R2: blanks between markup inside element-only content
    if T::ELEMENT_ONLY {
        for (i, t) in sh.toks.iter().enumerate() {
            if matches!(t.kind, Kind::Start | Kind::Empty | Kind::End) {
                // position before this tag: its container is the parent (for End: the element itself closes => use parent[i] of the End which we set to the grandparent; handle via previous token)
                let container = if t.kind == Kind::End {
                    // the element being closed: find matching start = innermost open at this point = parent of previous sibling... use the stack result: parent of End was set to the enclosing of the closed element
                    // so the closed element is the one whose children precede; locate it as the last Start with parent == sh.parent[i] before i that is unclosed: approximate by scanning back
                    let mut depth = 0;
                    let mut j = i;
                    let mut found = usize::MAX;
                    while j > 0 {
                        j -= 1;
                        match sh.toks[j].kind {
                            Kind::End => depth += 1,
                            Kind::Start => {
                                if depth == 0 {
                                    found = j;
                                    break;
                                }
                                depth -= 1;
                            }
                            _ => {}
                        }
                    }
                    found
                } else {
                    sh.parent[i]
                };
                if container != usize::MAX && sh.element_only[container] {
                    push("blank between elements", t.span.start, splice(s, t.span.start, 0, b" "));
                    push("newline+indent between elements", t.span.start, splice(s, t.span.start, 0, b"\n\t"));
                    push("blank, comment, blank between elements", t.span.start, splice(s, t.span.start, 0, b" <!--c--> "));
                }
            }
        }
    }
    // R3: text -> CDATA (whole and split), R4: character -> reference
    for (ti, t) in sh.toks.iter().enumerate() {
        if t.kind != Kind::Text || sh.parent[ti] == usize::MAX {
            continue;
        }
        let raw = &doc[t.span.clone()];
        if let Ok(un) = quick_xml::escape::unescape(raw) {
            // blank-only text between elements is insignificant as text, but would be data inside CDATA
            if !un.contains("]]>") && !un.trim().is_empty() {
                push("text -> CDATA", t.span.start, splice(s, t.span.start, raw.len(), format!("<![CDATA[{}]]>", un).as_bytes()));
                for (ci, _) in un.char_indices().skip(1) {
                    let (a, b) = un.split_at(ci);
                    if !a.ends_with("]]") && !a.ends_with(']') {
                        push("text -> two CDATA sections", t.span.start, splice(s, t.span.start, raw.len(), format!("<![CDATA[{}]]><![CDATA[{}]]>", a, b).as_bytes()));
                    }
                }
                // text + CDATA mixture
                if let Some((ci, _)) = un.char_indices().nth(1) {
                    let (a, b) = un.split_at(ci);
                    if !a.starts_with(|c: char| c.is_ascii_whitespace()) && !a.ends_with(|c: char| c.is_ascii_whitespace()) {
                        push("text -> text + CDATA", t.span.start, splice(s, t.span.start, raw.len(), format!("{}<![CDATA[{}]]>", quick_xml::escape::escape(a), b).as_bytes()));
                    }
                }
            }
        }
        char_refs(doc, t.span.start, t.span.end, true, &mut push);
    }
    // attribute-level rewrites
    for t in &sh.toks {
        if !matches!(t.kind, Kind::Start | Kind::Empty) {
            continue;
        }
        let spans = attr_spans(s, t);
        // R4 inside attribute values
        for &(a, eq, vs, b) in &spans {
            // Character references in attribute values are not among the rewrites the property lists
            // ("text replaced by ... character references"); they are applied to values that are plainly
            // strings and not to values that read as a number or boolean, which the deserializer parses
            // from the raw attribute text without unescaping (see DESIGN.md, observations)
            let raw_val = std::str::from_utf8(&s[vs + 1..b - 1]).unwrap_or("");
            let looks_primitive = raw_val.split_ascii_whitespace().all(|w| w.parse::<f64>().is_ok() || w == "true" || w == "false") && !raw_val.trim().is_empty();
            // namespace declarations are compared by the resolver on their raw bytes as well
            let key = &s[a..eq];
            let is_ns_decl = key.windows(5).any(|w| w == b"xmlns");
            if !looks_primitive && !is_ns_decl {
                char_refs(doc, vs + 1, b - 1, false, &mut push);
            }
            // R7: quote kind and blanks around `=`
            let q = s[vs];
            let other = if q == b'"' { b'\'' } else { b'"' };
            let val = &s[vs + 1..b - 1];
            if !val.contains(&other) {
                let mut piece = s[a..vs].to_vec();
                piece.push(other);
                piece.extend_from_slice(val);
                piece.push(other);
                push("swap quote kind", a, splice(s, a, b - a, &piece));
            }
            if vs == eq + 1 && !is_ws(s[eq - 1]) {
                let mut piece = s[a..eq].to_vec();
                piece.extend_from_slice(b" = ");
                piece.extend_from_slice(&s[vs..b]);
                push("blanks around =", a, splice(s, a, b - a, &piece));
                let mut piece = s[a..eq].to_vec();
                piece.extend_from_slice(b"\t=\r\n");
                piece.extend_from_slice(&s[vs..b]);
                push("tab / CRLF around =", a, splice(s, a, b - a, &piece));
                // another blank character between attributes
                if is_ws(s[a]) {
                    push("newline between attributes", a, splice(s, a, 1, b"\n\t"));
                }
            }
        }
        // R6: permutations of up to 3 attributes
        if (2..=3).contains(&spans.len()) {
            let n = spans.len();
            let perms: Vec<Vec<usize>> = if n == 2 { vec![vec![1, 0]] } else { vec![vec![0, 2, 1], vec![1, 0, 2], vec![1, 2, 0], vec![2, 0, 1], vec![2, 1, 0]] };
            for p in perms {
                let mut piece = Vec::new();
                for &k in &p {
                    let sp = &s[spans[k].0..spans[k].3];
                    if !sp.first().map_or(false, |&c| is_ws(c)) {
                        piece.push(b' ');
                    }
                    piece.extend_from_slice(sp);
                }
                push("permute attributes", spans[0].0, splice(s, spans[0].0, spans[n - 1].3 - spans[0].0, &piece));
            }
        }
        // R9: unknown attribute (not where attributes are data: maps, $value catch-alls)
        if T::IGNORES_UNKNOWN_CHILDREN && T::NAME != "MapHolder" {
            let tag = &s[t.content.clone()];
            if !has_attr_key(tag, b"zz") {
                push("unknown attribute", t.content.end, splice(s, t.content.end, 0, b" zz=\"1\""));
            }
            if !has_attr_key(tag, b"zy") {
                push("unknown attribute first", t.content.start + t.name_len, splice(s, t.content.start + t.name_len, 0, b" zy='&lt;'"));
            }
        }
        // R5: <x/> -> <x></x>
        if t.kind == Kind::Empty {
            let name = &doc[t.content.start..t.content.start + t.name_len];
            let open = &doc[t.span.start..t.content.end];
            push("<x/> -> <x></x>", t.span.start, splice(s, t.span.start, t.span.len(), format!("{}></{}>", open, name).as_bytes()));
        }
    }
    // R5 reverse: <x></x> -> <x/>
    for w in sh.toks.windows(2) {
        if w[0].kind == Kind::Start && w[1].kind == Kind::End && w[0].span.end == w[1].span.start {
            let open = &doc[w[0].span.start..w[0].content.end];
            push("<x></x> -> <x/>", w[0].span.start, splice(s, w[0].span.start, w[1].span.end - w[0].span.start, format!("{}/>", open).as_bytes()));
        }
    }
    // R8: prolog and epilog
    push("XML declaration", 0, splice(s, 0, 0, b"<?xml version=\"1.0\" encoding=\"UTF-8\"?>\n"));
    push("leading comment + newline", 0, splice(s, 0, 0, b"<!-- lead -->\n"));
    push("trailing comment", s.len(), splice(s, s.len(), 0, b"\n<!-- tail -->\n"));
    push("DOCTYPE", 0, splice(s, 0, 0, b"<!DOCTYPE root>"));
    // R10: unknown children at the start / end of the root's element-only content
    if T::IGNORES_UNKNOWN_CHILDREN && T::ELEMENT_ONLY && T::NAME != "MapHolder" {
        if let (Some(first), Some(last)) = (sh.toks.first(), sh.toks.last()) {
            if first.kind == Kind::Start && last.kind == Kind::End && sh.element_only[0] {
                for unk in ["<zz/>", "<zz>q</zz>", "<zz><a>1</a><zz/></zz>", "<zz a=\"1\"/>", "<zz xmlns:xsi=\"bogus\"><y/></zz>", "<zz xmlns:xsi=\"bogus\"><zz/>q</zz>", "<zz><y/>q</zz>", "<zz><p:zz xmlns:p=\"urn:p\"/><p:zz xmlns:p=\"urn:p\">q</p:zz></zz>"] {
                    push("unknown first child", first.span.end, splice(s, first.span.end, 0, unk.as_bytes()));
                    push("unknown last child", last.span.start, splice(s, last.span.start, 0, unk.as_bytes()));
                }
            }
        }
    }
    out
}

/// R4: every non-blank character (outside references) of doc[a..b] replaced by a decimal / hex reference.
fn char_refs(doc: &str, a: usize, b: usize, custom: bool, push: &mut impl FnMut(&'static str, usize, Option<String>)) {
    if a >= b || !doc.is_char_boundary(a) || !doc.is_char_boundary(b) {
        return;
    }
    let s = doc.as_bytes();
    let mut in_ref = false;
    for (off, c) in doc[a..b].char_indices() {
        let p = a + off;
        if c == '&' {
            in_ref = true;
            continue;
        }
        if in_ref {
            if c == ';' {
                in_ref = false;
            }
            continue;
        }
        if c.is_ascii_whitespace() {
            continue; // a blank may be a list separator; a reference would make it part of an item
        }
        if c == '\0' {
            continue; // there is no character reference for U+0000 (C10: `&#0;` must be an error)
        }
        push("char -> decimal reference", p, splice(s, p, c.len_utf8(), format!("&#{};", c as u32).as_bytes()));
        push("char -> hex reference", p, splice(s, p, c.len_utf8(), format!("&#x{:X};", c as u32).as_bytes()));
        if custom && c == 'a' {
            // read through the entry points that take an entity resolver (see `de_with_resolver`)
            push("char -> custom entity &qx; (resolver entry points)", p, splice(s, p, 1, b"&qx;"));
        }
    }
}

/// The resolver of the custom-entity rewrite: `qx` is the letter a; everything else as predefined.
struct QxResolver;
impl quick_xml::de::EntityResolver for QxResolver {
    type Error = std::convert::Infallible;
    fn capture(&mut self, _doctype: quick_xml::events::BytesText) -> Result<(), Self::Error> {
        Ok(())
    }
    fn resolve(&self, entity: &str) -> Option<&str> {
        match entity {
            "qx" => Some("a"),
            other => quick_xml::escape::resolve_predefined_entity(other),
        }
    }
}

/// Both resolver-taking entry points (borrowing and reader-based) must give the value.
fn de_with_resolver<T: Fam>(doc: &str) -> Result<T, String> {
    let a = guarded(|| {
        let mut d = quick_xml::de::Deserializer::from_str_with_resolver(doc, QxResolver);
        T::deserialize(&mut d).map_err(|e| format!("{:?}", e))
    })
    .map_err(|p| format!("panic in deserializer: {}", p))??;
    let b = guarded(|| {
        let mut d = quick_xml::de::Deserializer::with_resolver(doc.as_bytes(), QxResolver);
        T::deserialize(&mut d).map_err(|e| format!("{:?}", e))
    })
    .map_err(|p| format!("panic in deserializer: {}", p))??;
    if a != b {
        return Err(format!("from_str_with_resolver gives {:?}, with_resolver (reader) gives {:?}", a, b));
    }
    Ok(a)
}

/// `key` occurs in the tag content as an attribute key (followed by optional blanks and `=`)
fn has_attr_key(tag: &[u8], key: &[u8]) -> bool {
    (0..tag.len().saturating_sub(key.len())).any(|i| {
        tag[i..].starts_with(key)
            && i > 0
            && tag[i - 1].is_ascii_whitespace()
            && tag[i + key.len()..].iter().find(|b| !b.is_ascii_whitespace()) == Some(&b'=')
    })
}

fn sweep<T: Fam>(ctx: &Ctx, ln: u32, level: usize, pair_limit: usize, triple_limit: usize) {
    let vals = T::values(level);
    let seed = ctx.seed;
    ctx.layer(T::NAME, ln, vals.len() as u64, json!({"values": vals.len(), "pairs_on_documents_up_to_bytes": pair_limit, "triples_on_documents_up_to_bytes": triple_limit}), |i, acc| {
        let v = &vals[i as usize];
        let Ok(base) = ser(v, SerCfg::plain()) else { return };
        // only documents that round-trip are a base (C06 owns the others)
        match de::<T>(&base) {
            Ok(b) if b == *v => {}
            other => {
                if v.shape().is_some() {
                    // values of the known-finding shapes F5 / F6 do not round-trip at all (C06 reports them)
                    acc.count("base_documents_skipped_known_shape", 1);
                } else {
                    acc.evaluations += 1;
                    acc.violation(
                        (ln, i),
                        format!("{} value {:?}: the unmodified serialization {:?} deserializes as {:?}", T::NAME, v, base, other),
                        json!({"type": T::NAME, "index": i, "level": level, "rewritten": base, "rewrites": "none"}),
                    );
                }
                return;
            }
        }
        let mut bases = vec![base.clone()];
        for nd in v.nil_docs() {
            // the xsi:nil presentation itself must give the value (documented), then all rewrites apply to it
            acc.evaluations += 1;
            match de::<T>(&nd) {
                Ok(b) if b == *v => bases.push(nd),
                other => acc.violation(
                    (ln, i),
                    format!("{} value {:?}: the xsi:nil presentation {:?} deserializes as {:?}", T::NAME, v, nd, other),
                    json!({"type": T::NAME, "index": i, "level": level, "rewritten": nd, "rewrites": "xsi:nil presentation"}),
                ),
            }
        }
        for base in bases {
        let singles = rewrites::<T>(&base);
        let mut check = |acc: &mut Acc, names: String, doc: &str| {
            acc.evaluations += 1;
            acc.traces += 1;
            acc.transitions += 1;
            // both entry points: the borrowing one and the reader-based one (owned events, own constructor)
            let first = if doc.contains("&qx;") {
                de_with_resolver::<T>(doc)
            } else { match de::<T>(doc) {
                Ok(b) if b == *v => match crate::props::c06::de_reader::<T>(doc) {
                    Ok(b2) if b2 == *v => Ok(b2),
                    other => other.and_then(|x| Err(format!("from_reader gives {:?}", x))),
                },
                other => other,
            } };
            match first {
                Ok(b) if b == *v => acc.nt_count += 1,
                other => {
                  if std::env::var("QXMC_TRIAGE").is_ok() {
                      let n: String = names.split(" @").next().unwrap_or("").to_string();
                      let err = match &other { Ok(_) => "different value".to_string(), Err(e) => e.chars().take(60).collect() };
                      acc.count(&format!("triage|{}|{}|{}", T::NAME, n, err), 1);
                  }
                  acc.violation(
                    (ln, i),
                    format!("{} value {:?}: base {:?} rewritten by [{}] into {:?} deserializes as {:?}", T::NAME, v, base, names, doc, other),
                    json!({"type": T::NAME, "index": i, "level": level, "rewritten": doc, "rewrites": names}),
                )}
            }
        };
        for r in &singles {
            check(acc, format!("{} @{}", r.name, r.at), &r.doc);
            acc.state(h64(&(T::NAME, r.name)));
        }
        if base.len() <= pair_limit {
            for r1 in &singles {
                for r2 in rewrites::<T>(&r1.doc) {
                    check(acc, format!("{} @{}, then {} @{}", r1.name, r1.at, r2.name, r2.at), &r2.doc);
                    if base.len() <= triple_limit {
                        for r3 in rewrites::<T>(&r2.doc) {
                            check(acc, format!("{} @{}, then {} @{}, then {} @{}", r1.name, r1.at, r2.name, r2.at, r3.name, r3.at), &r3.doc);
                        }
                    }
                }
            }
        }
        acc.sample(seed, i ^ ((ln as u64) << 32) ^ base.len() as u64, || json!({"type": T::NAME, "base": base, "single_rewrites": singles.len(), "example": singles.get(singles.len() / 2).map(|r| r.doc.clone())}));
        }
    });
}

pub fn run(ctx: &Ctx) {
    ctx.set_rule(
        "base documents: the plain serialization of every value of the C06 family (quick value set; thorough: the larger set) that \
         round-trips, plus, for the type with optional elements, hand-written presentations of absent fields as xsi:nil elements. Rewrites, each applied at EVERY applicable site: comment / PI inserted at every position outside tags and outside \
         references (also inside text); blank / newline+tab between markup inside element-only content; text -> CDATA, -> two CDATA \
         sections at every split point, -> text + CDATA; every non-blank character of text and attribute values -> decimal / hex \
         reference; every letter a of a text -> the custom entity &qx; (such documents are read through Deserializer::from_str_with_resolver and with_resolver); <x/> <-> <x></x>; every permutation of up to 3 attributes; quote kind swapped where the value allows; blanks, tab and CRLF around \
         `=`, newline+tab between attributes; XML declaration, DOCTYPE, leading and trailing comment; unknown attribute (first / last) on every tag and unknown child \
         (8 shapes) as first / last child of the root, for types that ignore unknown fields. All single rewrites, and all ordered pairs \
         (second rewrite computed on the rewritten document) for base documents up to the pair limit; thorough: also all ordered triples for base documents up to 48 bytes. Oracle: from_str(rewritten) == \
         value and from_reader(rewritten) == value. non-trivial = every rewritten document; distinct by construction. states = (type, rewrite kind) pairs exercised",
    );
    ctx.assume("blank characters are never replaced by references (a blank may be a simple-list separator); unknown attributes / children are not added where they are data (maps, $value catch-alls)");
    let t = ctx.tier;
    let level = t.pick(0, 1);
    let pair_limit = t.pick(64, 110);
    let triple_limit = t.pick(0, 48);
    let mut ln = 0;
    let only = std::env::var("QXMC_ONLY").ok();
    macro_rules! go {
        ($($ty:ident),*) => { $( if only.as_deref().map_or(true, |o| o == <$ty as Fam>::NAME) { sweep::<$ty>(ctx, ln, level, pair_limit, triple_limit); } ln += 1; )* };
    }
    crate::for_each_type!(go);
    let _ = ln;
}

pub fn replay(case: &Value) -> Result<(), String> {
    let name = case["type"].as_str().ok_or("no type")?;
    let idx = case["index"].as_u64().unwrap() as usize;
    let level = case["level"].as_u64().unwrap_or(0) as usize;
    let doc = case["rewritten"].as_str().unwrap();
    let mut result = Err(format!("unknown type {}", name));
    macro_rules! go {
        ($($t:ident),*) => { $( if name == <$t as Fam>::NAME {
            let v = &<$t as Fam>::values(level)[idx];
            println!("value {:?}\nbase {:?}\nrewrites: {}\nrewritten {:?}", v, ser(v, SerCfg::plain()), case["rewrites"], doc);
            let got = de::<$t>(doc);
            println!("deserialized: {:?}", got);
            result = match got { Ok(b) if b == *v => Ok(()), other => Err(format!("{:?}", other)) };
        } )* };
    }
    crate::for_each_type!(go);
    result
}
