//! C09 — Events built through the API and written are read back identical.

use crate::common::*;
use crate::env::{block_on, ScriptedWrite, WAnswer};
use quick_xml::events::attributes::Attribute;
use quick_xml::events::*;
use quick_xml::reader::Reader;
use quick_xml::writer::Writer;
use serde_json::{json, Value};

#[derive(Clone, Debug, PartialEq, Eq, Hash)]
pub enum Spec {
    Start(String, Vec<(String, String)>),
    Empty(String, Vec<(String, String)>),
    End(String),
    Text(String),
    /// arbitrary content through the splitting constructor
    CData(String),
    Comment(String),
    PI(String),
    Decl(String, Option<String>, Option<String>),
    DocType(String),
    Eof,
}

/// What reading the written bytes must give (adjacent texts / CDATA pieces coalesced, empty texts dropped).
#[derive(Clone, Debug, PartialEq, Eq, Hash)]
pub enum Canon {
    Start(String, Vec<(String, String)>),
    Empty(String, Vec<(String, String)>),
    End(String),
    Text(String),
    CData(String),
    Comment(String),
    PI(String),
    Decl(String, Option<String>, Option<String>),
    DocType(String),
}

fn start_of<'a>(name: &'a str, attrs: &'a [(String, String)]) -> BytesStart<'a> {
    BytesStart::new(name).with_attributes(attrs.iter().map(|(k, v)| (k.as_str(), v.as_str())))
}

/// Builds the events of one spec through the public constructors.
pub fn build(spec: &Spec) -> Vec<Event<'_>> {
    match spec {
        Spec::Start(n, a) => vec![Event::Start(start_of(n, a))],
        Spec::Empty(n, a) => vec![Event::Empty(start_of(n, a))],
        Spec::End(n) => vec![Event::End(BytesEnd::new(n.as_str()))],
        Spec::Text(s) => vec![Event::Text(BytesText::new(s))],
        Spec::CData(s) => BytesCData::escaped(s).map(Event::CData).collect(),
        Spec::Comment(s) => vec![Event::Comment(BytesText::new(s))],
        Spec::PI(s) => vec![Event::PI(BytesPI::new(s.as_str()))],
        Spec::Decl(v, e, s) => vec![Event::Decl(BytesDecl::new(v, e.as_deref(), s.as_deref()))],
        Spec::DocType(s) => vec![Event::DocType(BytesText::from_escaped(s.as_str()))],
        Spec::Eof => vec![Event::Eof],
    }
}

fn push_canon(out: &mut Vec<Canon>, c: Canon) {
    match (&c, out.last_mut()) {
        (Canon::Text(t), _) if t.is_empty() => {}
        (Canon::Text(t), Some(Canon::Text(prev))) => prev.push_str(t),
        (Canon::CData(t), Some(Canon::CData(prev))) => prev.push_str(t),
        _ => out.push(c),
    }
}

pub fn expected(specs: &[Spec]) -> Vec<Canon> {
    let mut out = Vec::new();
    for s in specs {
        let c = match s.clone() {
            Spec::Start(n, a) => Canon::Start(n, a),
            Spec::Empty(n, a) => Canon::Empty(n, a),
            Spec::End(n) => Canon::End(n),
            Spec::Text(t) => Canon::Text(t),
            Spec::CData(t) => Canon::CData(t),
            Spec::Comment(t) => Canon::Comment(t),
            Spec::PI(t) => Canon::PI(t),
            Spec::Decl(v, e, s) => Canon::Decl(v, e, s),
            Spec::DocType(t) => Canon::DocType(t),
            Spec::Eof => continue,
        };
        push_canon(&mut out, c);
    }
    out
}

fn utf8(b: &[u8]) -> Result<String, String> {
    String::from_utf8(b.to_vec()).map_err(|_| format!("not UTF-8: {:?}", lossy(b)))
}

fn attrs_of(e: &BytesStart, decoder: quick_xml::encoding::Decoder) -> Result<Vec<(String, String)>, String> {
    let mut v = Vec::new();
    let mut it = e.attributes();
    it.with_checks(false); // repeated keys are the caller's business, not the writer's
    for a in it {
        let a = a.map_err(|err| format!("attribute error {:?} in {:?}", err, lossy(e)))?;
        v.push((utf8(a.key.as_ref())?, a.decode_and_unescape_value(decoder).map_err(|e| format!("{:?}", e))?.into_owned()));
    }
    distinct_keys_pass_the_duplicate_check(e, &v)?;
    Ok(v)
}

/// When all keys are pairwise different byte strings, the default iterator (duplicate check on)
/// must yield the same attributes without an error.
fn distinct_keys_pass_the_duplicate_check(e: &BytesStart, seen: &[(String, String)]) -> Result<(), String> {
    let distinct = (0..seen.len()).all(|i| (0..i).all(|j| seen[i].0 != seen[j].0));
    if !distinct {
        return Ok(());
    }
    let mut n = 0;
    for a in e.attributes() {
        let a = a.map_err(|err| format!("attributes() with the duplicate check on yields {:?} on {:?} although all keys differ", err, lossy(e)))?;
        if seen.get(n).map(|s| s.0.as_bytes()) != Some(a.key.as_ref()) {
            return Err(format!("attributes() with the duplicate check on yields key {:?} at #{} on {:?}", lossy(a.key.as_ref()), n, lossy(e)));
        }
        n += 1;
    }
    if n != seen.len() {
        return Err(format!("attributes() with the duplicate check on yields {} attributes, {} without it, on {:?}", n, seen.len(), lossy(e)));
    }
    Ok(())
}

/// Reads `bytes` back with all checks off and returns the canonical event list.
pub fn read_back(bytes: &[u8]) -> Result<Vec<Canon>, String> {
    let slice = read_back_from(Reader::from_reader(bytes), bytes, |r| r.read_event().map(|e| e.into_owned()))?;
    // the streaming reader must give the same events, whatever the piece size
    // a chunked source recognises a byte-order mark only inside its first piece (stated exception of C02)
    let pieces: [usize; 3] = if bytes.starts_with(&[0xEF, 0xBB, 0xBF]) { [4, 5, 7] } else { [1, 2, 5] };
    for piece in pieces {
        let script = crate::env::Script::pieces(piece);
        let mut buf = Vec::new();
        let streamed = read_back_from(Reader::from_reader(crate::env::Source::new(bytes, &script)), bytes, |r| {
            buf.clear();
            r.read_event_into(&mut buf).map(|e| e.into_owned())
        })?;
        if streamed != slice {
            return Err(format!("read back from a buffered source in pieces of {}: {:?}; from a slice: {:?}", piece, streamed, slice));
        }
    }
    Ok(slice)
}

fn read_back_from<R>(mut r: Reader<R>, bytes: &[u8], mut next: impl FnMut(&mut Reader<R>) -> quick_xml::Result<Event<'static>>) -> Result<Vec<Canon>, String> {
    let c = r.config_mut();
    c.check_end_names = false;
    c.allow_unmatched_ends = true;
    c.trim_markup_names_in_closing_tags = false;
    let mut out = Vec::new();
    for _ in 0..2 * bytes.len() + 8 {
        let dec = r.decoder();
        let ev = next(&mut r).map_err(|e| format!("reader error {:?} at {} in {:?}", e, r.error_position(), lossy(bytes)))?;
        let c = match ev {
            Event::Eof => return Ok(out),
            Event::Start(e) => Canon::Start(utf8(e.name().as_ref())?, attrs_of(&e, dec)?),
            Event::Empty(e) => Canon::Empty(utf8(e.name().as_ref())?, attrs_of(&e, dec)?),
            Event::End(e) => Canon::End(utf8(e.name().as_ref())?),
            Event::Text(t) => Canon::Text(t.unescape().map_err(|e| format!("text does not unescape: {:?}", e))?.into_owned()),
            Event::CData(t) => Canon::CData(utf8(&t)?),
            Event::Comment(t) => Canon::Comment(t.unescape().map_err(|e| format!("comment does not unescape: {:?}", e))?.into_owned()),
            Event::PI(p) => Canon::PI(utf8(&p)?),
            Event::Decl(d) => {
                let f = |x: Option<Result<std::borrow::Cow<[u8]>, quick_xml::events::attributes::AttrError>>| -> Result<Option<String>, String> {
                    match x {
                        None => Ok(None),
                        Some(Ok(b)) => Ok(Some(utf8(&b)?)),
                        Some(Err(e)) => Err(format!("{:?}", e)),
                    }
                };
                Canon::Decl(utf8(&d.version().map_err(|e| format!("{:?}", e))?)?, f(d.encoding())?, f(d.standalone())?)
            }
            Event::DocType(t) => Canon::DocType(utf8(&t)?),
        };
        push_canon(&mut out, c);
    }
    Err("no Eof".into())
}

pub fn write_sync(specs: &[Spec], indent: Option<(u8, usize)>) -> Result<Vec<u8>, String> {
    write_sync_bom(specs, indent, false)
}

pub fn write_sync_bom(specs: &[Spec], indent: Option<(u8, usize)>, bom: bool) -> Result<Vec<u8>, String> {
    guarded(|| {
        let mut w = match indent {
            None => Writer::new(Vec::new()),
            Some((c, n)) => Writer::new_with_indent(Vec::new(), c, n),
        };
        if bom {
            w.write_bom().unwrap();
        }
        for s in specs {
            for e in build(s) {
                w.write_event(e).unwrap();
            }
        }
        w.into_inner()
    })
    .map_err(|p| format!("panic while writing: {}", p))
}

pub fn write_async(specs: &[Spec], script: Vec<(usize, WAnswer)>, calls_out: &mut usize) -> Result<Vec<u8>, String> {
    let r = guarded_mut(|| -> Result<Vec<u8>, String> {
        let mut w = Writer::new(ScriptedWrite::new(script.clone()));
        for s in specs {
            for e in build(s) {
                match block_on(w.write_event_async(e), 64 + script.len() * 4) {
                    Some(Ok(())) => {}
                    Some(Err(e)) => return Err(format!("async write error {:?}", e)),
                    None => return Err("async write stuck".into()),
                }
            }
        }
        let inner = w.into_inner();
        *calls_out = inner.calls;
        Ok(inner.out)
    });
    match r {
        Ok(x) => x,
        Err(p) => Err(format!("panic in async write: {}", p)),
    }
}

/// The core check for one event sequence.
pub fn check_sequence(specs: &[Spec]) -> Result<Vec<u8>, String> {
    let bytes = write_sync(specs, None)?;
    let got = guarded(|| read_back(&bytes)).map_err(|p| format!("panic while reading back: {}", p))??;
    let want = expected(specs);
    if got != want {
        let i = (0..got.len().max(want.len())).find(|&i| got.get(i) != want.get(i)).unwrap_or(0);
        return Err(format!("written {:?}; event #{} read back as {:?}, built as {:?}", lossy(&bytes), i, got.get(i), want.get(i)));
    }
    // a byte-order mark written first (Writer::write_bom) is not part of any event read back
    let with_bom = write_sync_bom(specs, None, true)?;
    if with_bom.len() != bytes.len() + 3 || !with_bom.starts_with(&[0xEF, 0xBB, 0xBF]) || with_bom[3..] != bytes[..] {
        return Err(format!("write_bom + events wrote {:?}", lossy(&with_bom)));
    }
    let got_bom = guarded(|| read_back(&with_bom)).map_err(|p| format!("panic while reading back: {}", p))??;
    if got_bom != want {
        return Err(format!("behind a byte-order mark the events read back as {:?}, built as {:?}", got_bom, want));
    }
    Ok(bytes)
}

// ------------------------------------------------------------------------------------------------
// Pools

fn pool() -> Vec<Spec> {
    let s = |x: &str| x.to_string();
    let kv = |k: &str, v: &str| (k.to_string(), v.to_string());
    vec![
        Spec::Start(s("a"), vec![]),
        Spec::Start(s("p:c"), vec![kv("k", "v")]),
        Spec::Start(s("bb"), vec![kv("x", "\"'<>&"), kv("y:z", " a  b ")]),
        Spec::Start(s("é"), vec![kv("é", "é]]>--?>")]),
        Spec::Empty(s("a"), vec![]),
        Spec::Empty(s("a-b.c"), vec![kv("k", ""), kv("l", "/")]),
        Spec::Empty(s("e"), vec![kv("q", "a\tb\nc"), kv("r", "&amp;")]),
        Spec::Empty(s("e"), vec![kv("id", "1"), kv("ID", "2"), kv("x:id", "3"), kv("x:Id", "4")]),
        Spec::End(s("a")),
        Spec::End(s("p:c")),
        Spec::Text(s("")),
        Spec::Text(s("t")),
        Spec::Text(s(" <&>\"' ")),
        Spec::Text(s("]]>")),
        Spec::Text(s("&lt;é")),
        Spec::CData(s("")),
        Spec::CData(s("c")),
        Spec::CData(s("]]>")),
        Spec::CData(s("a]]>]]>b]]")),
        Spec::CData(s("<&>")),
        Spec::Comment(s("")),
        Spec::Comment(s(" c ")),
        Spec::Comment(s("-")),
        Spec::Comment(s("a--b-->")),
        Spec::PI(s("p")),
        Spec::PI(s("p d ? > é")),
        Spec::PI(s("")),
        Spec::Decl(s("1.0"), None, None),
        Spec::Decl(s("1.1"), Some(s("UTF-8")), Some(s("yes"))),
        Spec::Decl(s("1.0"), None, Some(s("no"))),
        Spec::DocType(s("d")),
        Spec::DocType(s("d [<!ENTITY x '<y>'>]")),
    ]
}

const PAYLOAD_ALPHA: [&str; 12] = ["<", ">", "&", "'", "\"", "]", "-", "?", " ", "a", "é", "\u{FEFF}"];

fn payload(i: u64, max: u32) -> String {
    let mut d = Vec::new();
    decode_upto(PAYLOAD_ALPHA.len() as u64, max, i, &mut d);
    d.iter().map(|&x| PAYLOAD_ALPHA[x as usize]).collect()
}

// ------------------------------------------------------------------------------------------------
// BytesStart edit machine

#[derive(Clone, Copy, Debug, PartialEq, Eq)]
enum Op {
    SetName(u8),
    Push(u8, u8),
    /// push_attribute through the sibling conversions of `Attribute`: (&str, Cow<str>) borrowed / owned
    PushCow(u8, bool),
    Extend,
    Clear,
    WithAttrs,
    ToOwned,
    BorrowToOwned,
    IntoOwned,
    /// continue on `e.borrow()` (a view whose buffer is borrowed and already holds the attributes)
    Borrow,
}

const NAMES: [&str; 3] = ["a", "bb", "ccc"];
const KEYS: [&str; 2] = ["k", "n:m"];
const VALS: [&str; 3] = ["", "v w", "\"<&'>"];

fn ops() -> Vec<Op> {
    let mut v = vec![Op::SetName(0), Op::SetName(1), Op::SetName(2)];
    for k in 0..2 {
        for x in 0..3 {
            v.push(Op::Push(k, x));
        }
    }
    v.extend([Op::PushCow(0, false), Op::PushCow(1, true)]);
    v.extend([Op::Extend, Op::Clear, Op::WithAttrs, Op::ToOwned, Op::BorrowToOwned, Op::IntoOwned, Op::Borrow]);
    v
}

fn check_start(e: &BytesStart, name: &str, attrs: &[(String, String)]) -> Result<(), String> {
    if e.name().as_ref() != name.as_bytes() {
        return Err(format!("name() is {:?}, model says {:?}", lossy(e.name().as_ref()), name));
    }
    let mut got = Vec::new();
    let mut it = e.attributes();
    it.with_checks(false);
    for a in it {
        let a = a.map_err(|err| format!("attributes() yields {:?} on {:?}", err, lossy(e)))?;
        got.push((utf8(a.key.as_ref())?, a.decode_and_unescape_value(utf8_decoder()).map_err(|e| format!("{:?}", e))?.into_owned()));
    }
    if got != attrs {
        return Err(format!("attributes() yields {:?}, model says {:?} (content {:?})", got, attrs, lossy(e)));
    }
    distinct_keys_pass_the_duplicate_check(e, &got)?;
    Ok(())
}

/// a reader over UTF-8 text hands out the UTF-8 decoder
fn utf8_decoder() -> quick_xml::encoding::Decoder {
    Reader::from_str("").decoder()
}

/// How the start tag comes into being: the buffer behind it is owned or borrowed, with or without
/// attributes already in it.
const INITS: [&str; 4] = ["new(\"a\")", "from_content(\"a k=\\\"v w\\\"\", 1)", "read from <a k=\"v w\" n:m=''>", "new(String)"];

fn edit_machine_from(init: usize, seq: &[Op]) -> Result<(), String> {
    let r = guarded(|| -> Result<(), String> {
        let name = "a".to_string();
        match init {
            0 => apply_ops(BytesStart::new("a"), name, Vec::new(), seq, 0),
            1 => apply_ops(BytesStart::from_content("a k=\"v w\"", 1), name, vec![("k".into(), "v w".into())], seq, 0),
            2 => {
                let mut r = Reader::from_str("<a k=\"v w\" n:m=''>");
                match r.read_event() {
                    Ok(Event::Start(e)) => apply_ops(e, name, vec![("k".into(), "v w".into()), ("n:m".into(), "".into())], seq, 0),
                    other => Err(format!("MACHINERY: reading the start tag gave {:?}", other)),
                }
            }
            _ => apply_ops(BytesStart::new(String::from("a")), name, Vec::new(), seq, 0),
        }
    });
    match r {
        Ok(x) => x,
        Err(p) => Err(format!("panic: {}", p)),
    }
}

/// Applies `seq[idx..]` to `e` (the model is `name` + `attrs`), checking after every step; `Borrow`
/// continues on a borrowed view of the event (recursion keeps the owner alive).
fn apply_ops(mut e: BytesStart, mut name: String, mut attrs: Vec<(String, String)>, seq: &[Op], idx: usize) -> Result<(), String> {
    for i in idx..seq.len() {
        let op = seq[i];
        match op {
            Op::SetName(n) => {
                e.set_name(NAMES[n as usize].as_bytes());
                name = NAMES[n as usize].to_string();
            }
            Op::Push(k, v) => {
                e.push_attribute((KEYS[k as usize], VALS[v as usize]));
                attrs.push((KEYS[k as usize].to_string(), VALS[v as usize].to_string()));
            }
            Op::PushCow(k, owned) => {
                let val = "\"<&'>";
                let cow: std::borrow::Cow<str> = if owned { std::borrow::Cow::Owned(val.to_string()) } else { std::borrow::Cow::Borrowed(val) };
                e.push_attribute((KEYS[k as usize], cow));
                attrs.push((KEYS[k as usize].to_string(), val.to_string()));
            }
            Op::Extend => {
                e.extend_attributes([("x", "1"), ("y", "<2>")]);
                attrs.push(("x".into(), "1".into()));
                attrs.push(("y".into(), "<2>".into()));
            }
            Op::Clear => {
                e.clear_attributes();
                attrs.clear();
            }
            Op::WithAttrs => {
                e = e.with_attributes([Attribute::from(("w", "&"))]);
                attrs.push(("w".into(), "&".into()));
            }
            Op::ToOwned => e = e.to_owned(),
            Op::BorrowToOwned => e = e.borrow().to_owned(),
            Op::IntoOwned => e = e.into_owned(),
            Op::Borrow => {
                let b = e.borrow();
                check_start(&b, &name, &attrs).map_err(|m| format!("after step #{} ({:?}): {}", i, op, m))?;
                return apply_ops(b, name, attrs, seq, i + 1);
            }
        }
        check_start(&e, &name, &attrs).map_err(|m| format!("after step #{} ({:?}): {}", i, op, m))?;
    }
    // written and re-read
    let mut w = Writer::new(Vec::new());
    w.write_event(Event::Start(e.borrow())).unwrap();
    w.write_event(Event::Empty(e.borrow())).unwrap();
    let bytes = w.into_inner();
    let got = read_back(&bytes)?;
    let want = vec![Canon::Start(name.clone(), attrs.clone()), Canon::Empty(name, attrs)];
    if got != want {
        return Err(format!("written {:?}, read back {:?}, model {:?}", lossy(&bytes), got, want));
    }
    Ok(())
}

// ------------------------------------------------------------------------------------------------
// ElementWriter sequences

#[derive(Clone, Copy, Debug, PartialEq, Eq)]
pub enum EOp {
    Attr(u8),
    Attrs,
    NewLine,
}

#[derive(Clone, Copy, Debug, PartialEq, Eq)]
pub enum EFin {
    Empty,
    Text,
    CData,
    PI,
    Inner(u8), // nested element kind
}

pub fn element_writer(pre: &[EOp], fin: EFin, indent: Option<(u8, usize)>) -> Result<Vec<u8>, String> {
    let r = guarded(|| -> Result<Vec<u8>, String> {
        let mut w = match indent {
            None => Writer::new(Vec::new()),
            Some((c, n)) => Writer::new_with_indent(Vec::new(), c, n),
        };
        let mut attrs: Vec<(String, String)> = Vec::new();
        {
            let mut ew = w.create_element("el");
            for op in pre {
                match op {
                    EOp::Attr(k) => {
                        let (key, val) = [("k", "v"), ("q", "\"<'>&"), ("n:m", " a b ")][*k as usize];
                        ew = ew.with_attribute((key, val));
                        attrs.push((key.into(), val.into()));
                    }
                    EOp::Attrs => {
                        ew = ew.with_attributes([("x", "1"), ("y", "2")]);
                        attrs.push(("x".into(), "1".into()));
                        attrs.push(("y".into(), "2".into()));
                    }
                    EOp::NewLine => ew = ew.new_line(),
                }
            }
            match fin {
                EFin::Empty => ew.write_empty().map(|_| ()),
                EFin::Text => ew.write_text_content(BytesText::new("t<&>")).map(|_| ()),
                EFin::CData => ew.write_cdata_content(BytesCData::new("c<&>")).map(|_| ()),
                EFin::PI => ew.write_pi_content(BytesPI::new("p d")).map(|_| ()),
                EFin::Inner(k) => ew
                    .write_inner_content(|w| {
                        let inner = w.create_element("in").with_attribute(("i", "<1>"));
                        match k {
                            0 => inner.write_empty().map(|_| ()),
                            1 => inner.write_text_content(BytesText::new("x")).map(|_| ()),
                            _ => inner.write_inner_content(|w| w.create_element("deep").write_empty().map(|_| ())).map(|_| ()),
                        }
                    })
                    .map(|_| ()),
            }
            .map_err(|e| format!("{:?}", e))?;
        }
        let bytes = w.into_inner();
        let got = read_back(&bytes)?;
        // drop whitespace-only texts between markup (indentation)
        let got: Vec<Canon> = got.into_iter().filter(|c| !matches!(c, Canon::Text(t) if indent.is_some() && t.trim().is_empty())).collect();
        let name = "el".to_string();
        let mut want = Vec::new();
        match fin {
            EFin::Empty => want.push(Canon::Empty(name, attrs)),
            EFin::Text => want.extend([Canon::Start(name.clone(), attrs), Canon::Text("t<&>".into()), Canon::End(name)]),
            EFin::CData => want.extend([Canon::Start(name.clone(), attrs), Canon::CData("c<&>".into()), Canon::End(name)]),
            EFin::PI => want.extend([Canon::Start(name.clone(), attrs), Canon::PI("p d".into()), Canon::End(name)]),
            EFin::Inner(k) => {
                want.push(Canon::Start(name.clone(), attrs));
                let ia = vec![("i".to_string(), "<1>".to_string())];
                match k {
                    0 => want.push(Canon::Empty("in".into(), ia)),
                    1 => want.extend([Canon::Start("in".into(), ia), Canon::Text("x".into()), Canon::End("in".into())]),
                    _ => want.extend([Canon::Start("in".into(), ia), Canon::Empty("deep".into(), vec![]), Canon::End("in".into())]),
                }
                want.push(Canon::End(name));
            }
        }
        if got != want {
            return Err(format!("written {:?}, read back {:?}, expected {:?}", lossy(&bytes), got, want));
        }
        Ok(bytes)
    });
    match r {
        Ok(x) => x,
        Err(p) => Err(format!("panic: {}", p)),
    }
}

/// The same builder calls through the asynchronous ElementWriter methods over a scripted sink; returns the bytes.
fn element_writer_async(pre: &[EOp], fin: EFin, indent: Option<(u8, usize)>, script: Vec<(usize, WAnswer)>, calls_out: &mut usize) -> Result<Vec<u8>, String> {
    let horizon = 256 + 8 * script.len();
    let r = guarded_mut(|| -> Result<(Vec<u8>, usize), String> {
        let sink = ScriptedWrite::new(script);
        let mut w = match indent {
            None => Writer::new(sink),
            Some((c, n)) => Writer::new_with_indent(sink, c, n),
        };
        {
            let mut ew = w.create_element("el");
            for op in pre {
                match op {
                    EOp::Attr(k) => {
                        let (key, val) = [("k", "v"), ("q", "\"<'>&"), ("n:m", " a b ")][*k as usize];
                        ew = ew.with_attribute((key, val));
                    }
                    EOp::Attrs => ew = ew.with_attributes([("x", "1"), ("y", "2")]),
                    EOp::NewLine => ew = ew.new_line(),
                }
            }
            let res: Option<Result<(), quick_xml::Error>> = match fin {
                EFin::Empty => block_on(ew.write_empty_async(), horizon).map(|r| r.map(|_| ())),
                EFin::Text => block_on(ew.write_text_content_async(BytesText::new("t<&>")), horizon).map(|r| r.map(|_| ())),
                EFin::CData => block_on(ew.write_cdata_content_async(BytesCData::new("c<&>")), horizon).map(|r| r.map(|_| ())),
                EFin::PI => block_on(ew.write_pi_content_async(BytesPI::new("p d")), horizon).map(|r| r.map(|_| ())),
                EFin::Inner(k) => block_on(
                    ew.write_inner_content_async::<_, _, quick_xml::Error>(|w| async move {
                        let inner = w.create_element("in").with_attribute(("i", "<1>"));
                        match k {
                            0 => inner.write_empty_async().await,
                            1 => inner.write_text_content_async(BytesText::new("x")).await,
                            _ => inner.write_inner_content_async::<_, _, quick_xml::Error>(|w| async move { w.create_element("deep").write_empty_async().await }).await,
                        }
                    }),
                    horizon,
                )
                .map(|r| r.map(|_| ())),
            };
            match res {
                None => return Err("async ElementWriter call did not complete".into()),
                Some(Err(e)) => return Err(format!("{:?}", e)),
                Some(Ok(())) => {}
            }
        }
        let sink = w.into_inner();
        Ok((sink.out, sink.calls))
    });
    match r {
        Ok(Ok((b, c))) => {
            *calls_out = c;
            Ok(b)
        }
        Ok(Err(e)) => Err(e),
        Err(p) => Err(format!("panic: {}", p)),
    }
}

fn spec_json(s: &[Spec]) -> Value {
    json!(s.iter().map(|x| format!("{:?}", x)).collect::<Vec<_>>())
}

pub fn run(ctx: &Ctx) {
    ctx.set_rule(
        "(a) every sequence of up to N event specifications from a pool of 32 (all ten event kinds, hostile payloads: quotes, <, &, ]]>, \
         --, ?, blanks, non-ASCII) built through the public constructors, written with Writer::write_event and read back with all checks \
         off; (b) every string up to length L over {< > & ' \" ] - ? space a é} as attribute value, text, CDATA (splitting \
         constructor) and comment payload; (c) the BytesStart edit machine: every sequence of up to 5/6 operations out of set_name x3, \
         push_attribute x6 (and x2 through the (&str, Cow<str>) conversion), extend_attributes, clear_attributes, with_attributes, to_owned, borrow+to_owned, into_owned, with name() and \
         attributes() compared with a (name, Vec<(k,v)>) model after EVERY step and the written tag re-read at the end; (d) ElementWriter: \
         every sequence of up to 3 with_attribute/with_attributes/new_line calls x 7 finishing calls x {no indent, 2 blanks, tab}, and the same calls through the asynchronous methods (write_*_async) over a scripted AsyncWrite with one Pending / one-byte short write at every call index and with one-byte writes throughout, which must give the same bytes; (e) \
         async writer: every sequence of up to 2 specs through write_event_async over a scripted AsyncWrite with every placement of up to \
         2/3 deviations (Pending / one-byte short write) must produce the sync writer's bytes. Oracle: adjacent texts coalesced, empty ones \
         dropped, attribute values / text / comments unescape to the original strings, CDATA pieces concatenate to the original, Decl \
         fields equal the constructor inputs. non-trivial = the sequence has a hostile payload or >= 2 events; distinct by construction",
    );
    ctx.assume("constructor preconditions honoured: names are XML names, PI content has no `?>` and its target is not `xml`, Decl arguments have no double quote, DOCTYPE bodies are non-empty with balanced angle brackets, attribute keys within one tag are distinct");
    let t = ctx.tier;
    let full = cfg!(feature = "full");
    let seed = ctx.seed;
    let pool = pool();
    let k = pool.len() as u64;
    let n = if full { t.pick(4, 5) } else { 2 };
    ctx.layer("a.event_sequences", 0, count_upto(k, n), json!({"pool": pool.len(), "max_len": n}), |i, acc| {
        let mut d = Vec::new();
        decode_upto(k, n, i, &mut d);
        let specs: Vec<Spec> = d.iter().map(|&x| pool[x as usize].clone()).collect();
        acc.evaluations += 1;
        acc.traces += 1;
        acc.transitions += specs.len() as u64 * 2;
        match check_sequence(&specs) {
            Ok(bytes) => {
                if specs.len() >= 2 {
                    acc.nt_count += 1;
                }
                acc.state(h64(&expected(&specs).iter().map(|c| std::mem::discriminant(c)).collect::<Vec<_>>()));
                acc.sample(seed, i, || json!({"events": spec_json(&specs), "written": lossy(&bytes)}));
            }
            Err(what) => acc.violation((0, i), format!("events {:?}: {}", specs, what), json!({"kind": "sequence", "pool_indices": d})),
        }
    });

    let l = t.pick(5, 6);
    let np = count_upto(PAYLOAD_ALPHA.len() as u64, l);
    ctx.layer("b.payloads_x_positions", 1, np * 4, json!({"alphabet": PAYLOAD_ALPHA, "max_len": l, "positions": ["attribute value", "text", "cdata (escaped)", "comment"]}), |i, acc| {
        let p = payload(i / 4, l);
        let specs = match i % 4 {
            0 => vec![Spec::Start("a".into(), vec![("k".into(), p.clone()), ("l".into(), p.clone())])],
            1 => vec![Spec::Start("a".into(), vec![]), Spec::Text(p.clone()), Spec::End("a".into())],
            2 => vec![Spec::Start("a".into(), vec![]), Spec::CData(p.clone()), Spec::End("a".into())],
            _ => vec![Spec::Comment(p.clone()), Spec::Empty("a".into(), vec![])],
        };
        acc.evaluations += 1;
        acc.traces += 1;
        acc.transitions += 4;
        match check_sequence(&specs) {
            Ok(_) => {
                if p.chars().any(|c| c != 'a') {
                    acc.nt_count += 1;
                }
            }
            Err(what) => acc.violation((1, i), format!("payload {:?} position {}: {}", p, i % 4, what), json!({"kind": "payload", "payload": p, "position": i % 4})),
        }
        // sibling constructors of the same payload: CDATA content converted into text by
        // BytesCData::escape / partial_escape / minimal_escape, written, read back, unescaped
        if i % 4 == 2 && !p.contains("]]>") {
            for level in 0..3u8 {
                acc.evaluations += 1;
                let r = guarded(|| -> Result<(), String> {
                    let cd = BytesCData::new(p.as_str());
                    let text = match level {
                        0 => cd.escape(),
                        1 => cd.partial_escape(),
                        _ => cd.minimal_escape(),
                    }
                    .map_err(|e| format!("{:?}", e))?;
                    let mut w = Writer::new(Vec::new());
                    w.write_event(Event::Start(BytesStart::new("a"))).unwrap();
                    w.write_event(Event::Text(text)).unwrap();
                    w.write_event(Event::End(quick_xml::events::BytesEnd::new("a"))).unwrap();
                    let bytes = w.into_inner();
                    let got = read_back(&bytes)?;
                    let mut want = vec![Canon::Start("a".into(), vec![])];
                    if !p.is_empty() {
                        want.push(Canon::Text(p.clone()));
                    }
                    want.push(Canon::End("a".into()));
                    if got != want {
                        return Err(format!("written {:?}, read back {:?}", lossy(&bytes), got));
                    }
                    Ok(())
                });
                match r {
                    Ok(Ok(())) => {}
                    Ok(Err(what)) | Err(what) => acc.violation((1, i), format!("CDATA content {:?} converted with {}: {}", p, ["escape()", "partial_escape()", "minimal_escape()"][level as usize], what), json!({"kind": "payload", "payload": p, "position": 2})),
                }
            }
        }
    });

    let ops = ops();
    let ko = ops.len() as u64;
    let depth = if full { t.pick(5, 6) } else { 3 };
    let ninit = INITS.len() as u64;
    ctx.layer("c.bytes_start_edit_machine", 2, count_upto(ko, depth) * ninit, json!({"operations": ops.iter().map(|o| format!("{:?}", o)).collect::<Vec<_>>(), "max_depth": depth, "initial_events": INITS}), |i0, acc| {
        let init = (i0 % ninit) as usize;
        let i = i0 / ninit;
        let mut d = Vec::new();
        decode_upto(ko, depth, i, &mut d);
        let seq: Vec<Op> = d.iter().map(|&x| ops[x as usize]).collect();
        acc.evaluations += 1;
        acc.traces += 1;
        acc.transitions += seq.len() as u64;
        match edit_machine_from(init, &seq) {
            Ok(()) => {
                if seq.iter().any(|o| matches!(o, Op::SetName(_))) && (init == 1 || init == 2 || seq.iter().any(|o| matches!(o, Op::Push(..) | Op::Extend))) {
                    acc.nt_count += 1;
                }
            }
            Err(what) => acc.violation((2, i0), format!("BytesStart {} then edits {:?}: {}", INITS[init], seq, what), json!({"kind": "edit", "ops": d, "init": init})),
        }
    });

    let eops = [EOp::Attr(0), EOp::Attr(1), EOp::Attr(2), EOp::Attrs, EOp::NewLine];
    let fins = [EFin::Empty, EFin::Text, EFin::CData, EFin::PI, EFin::Inner(0), EFin::Inner(1), EFin::Inner(2)];
    let indents = [None, Some((b' ', 2usize)), Some((b'\t', 1usize))];
    let ke = eops.len() as u64;
    let npre = count_upto(ke, 3);
    ctx.layer("d.element_writer", 3, npre * 7 * 3, json!({"builder_calls": "every sequence of <=3 out of with_attribute x3, with_attributes, new_line (attribute keys kept distinct)", "finishers": 7, "indents": 3}), |i, acc| {
        let mut d = Vec::new();
        decode_upto(ke, 3, i / 21, &mut d);
        // keep attribute keys distinct
        let mut seen = std::collections::HashSet::new();
        if !d.iter().all(|&x| x == 4 || seen.insert(x)) {
            return;
        }
        let pre: Vec<EOp> = d.iter().map(|&x| eops[x as usize]).collect();
        let fin = fins[((i / 3) % 7) as usize];
        let ind = indents[(i % 3) as usize];
        acc.evaluations += 1;
        acc.traces += 1;
        acc.transitions += pre.len() as u64 + 1;
        match element_writer(&pre, fin, ind) {
            Ok(sync) => {
                acc.nt_count += 1;
                // the asynchronous builder methods must produce the same bytes, whatever the sink does:
                // no deviation, one Pending / one-byte short write at every call index, one-byte writes throughout
                let mut calls = 0;
                let mut scripts: Vec<Vec<(usize, WAnswer)>> = vec![vec![]];
                match element_writer_async(&pre, fin, ind, vec![], &mut calls) {
                    Ok(_) => {
                        for c in 0..calls {
                            scripts.push(vec![(c, WAnswer::Pending)]);
                            scripts.push(vec![(c, WAnswer::OneByte)]);
                        }
                        scripts.push((0..sync.len() + 8).map(|c| (c, WAnswer::OneByte)).collect());
                    }
                    Err(_) => {}
                }
                for sc in scripts {
                    acc.evaluations += 1;
                    acc.traces += 1;
                    let mut c2 = 0;
                    match element_writer_async(&pre, fin, ind, sc.clone(), &mut c2) {
                        Ok(b) if b == sync => {}
                        other => acc.violation(
                            (3, i),
                            format!("ElementWriter {:?} then {:?} (async methods), indent {:?}, sink schedule {:?}: {:?}, the synchronous methods write {:?}", pre, fin, ind, &sc[..sc.len().min(4)], other.map(|b| lossy(&b)), lossy(&sync)),
                            json!({"kind": "element_writer", "pre": d, "fin": (i / 3) % 7, "indent": i % 3}),
                        ),
                    }
                }
            }
            Err(what) => acc.violation((3, i), format!("ElementWriter {:?} then {:?}, indent {:?}: {}", pre, fin, ind, what), json!({"kind": "element_writer", "pre": d, "fin": (i / 3) % 7, "indent": i % 3})),
        }
    });

    // (e) async writer under a deviation-bounded write schedule
    let n2 = 2u32;
    let bound = t.pick(2, 3);
    ctx.layer("e.async_writer", 4, count_upto(k, n2), json!({"max_len": n2, "deviations": ["Pending", "one-byte short write"], "deviation_bound": bound}), |i, acc| {
        let mut d = Vec::new();
        decode_upto(k, n2, i, &mut d);
        let specs: Vec<Spec> = d.iter().map(|&x| pool[x as usize].clone()).collect();
        let Ok(sync) = write_sync(&specs, None) else { return };
        let mut stack: Vec<Vec<(usize, WAnswer)>> = vec![vec![]];
        while let Some(script) = stack.pop() {
            let mut calls = 0;
            acc.evaluations += 1;
            acc.traces += 1;
            match write_async(&specs, script.clone(), &mut calls) {
                Ok(bytes) if bytes == sync => {
                    acc.transitions += calls as u64;
                    if !script.is_empty() {
                        acc.nt_count += 1;
                    }
                }
                Ok(bytes) => acc.violation((4, i), format!("events {:?}, write schedule {:?}: async writer produced {:?}, sync writer {:?}", specs, script, lossy(&bytes), lossy(&sync)), json!({"kind": "async", "pool_indices": d})),
                Err(what) => acc.violation((4, i), format!("events {:?}, write schedule {:?}: {}", specs, script, what), json!({"kind": "async", "pool_indices": d})),
            }
            if script.len() < bound {
                let from = script.last().map_or(0, |l| l.0 + 1);
                for c in from..calls {
                    for a in [WAnswer::Pending, WAnswer::OneByte] {
                        let mut s2 = script.clone();
                        s2.push((c, a));
                        stack.push(s2);
                    }
                }
            }
        }
    });
}

pub fn replay(case: &Value) -> Result<(), String> {
    let pool = pool();
    match case["kind"].as_str().unwrap_or("") {
        "sequence" | "async" => {
            let specs: Vec<Spec> = case["pool_indices"].as_array().ok_or("no indices")?.iter().map(|v| pool[v.as_u64().unwrap() as usize].clone()).collect();
            println!("events: {:?}", specs);
            let bytes = check_sequence(&specs)?;
            println!("written: {:?}", lossy(&bytes));
            if case["kind"] == "async" {
                let mut calls = 0;
                let a = write_async(&specs, vec![], &mut calls)?;
                if a != bytes {
                    return Err(format!("async writer produced {:?}", lossy(&a)));
                }
            }
            Ok(())
        }
        "payload" => {
            let p = case["payload"].as_str().unwrap().to_string();
            let specs = match case["position"].as_u64().unwrap() {
                0 => vec![Spec::Start("a".into(), vec![("k".into(), p.clone()), ("l".into(), p.clone())])],
                1 => vec![Spec::Start("a".into(), vec![]), Spec::Text(p.clone()), Spec::End("a".into())],
                2 => vec![Spec::Start("a".into(), vec![]), Spec::CData(p.clone()), Spec::End("a".into())],
                _ => vec![Spec::Comment(p.clone()), Spec::Empty("a".into(), vec![])],
            };
            check_sequence(&specs).map(|b| println!("written: {:?}", lossy(&b)))
        }
        "edit" => {
            let ops = ops();
            let seq: Vec<Op> = case["ops"].as_array().unwrap().iter().map(|v| ops[v.as_u64().unwrap() as usize]).collect();
            let init = case.get("init").and_then(|i| i.as_u64()).unwrap_or(0) as usize;
            println!("start tag: {}; edits: {:?}", INITS[init], seq);
            edit_machine_from(init, &seq)
        }
        "element_writer" => {
            let eops = [EOp::Attr(0), EOp::Attr(1), EOp::Attr(2), EOp::Attrs, EOp::NewLine];
            let fins = [EFin::Empty, EFin::Text, EFin::CData, EFin::PI, EFin::Inner(0), EFin::Inner(1), EFin::Inner(2)];
            let indents = [None, Some((b' ', 2usize)), Some((b'\t', 1usize))];
            let pre: Vec<EOp> = case["pre"].as_array().unwrap().iter().map(|v| eops[v.as_u64().unwrap() as usize]).collect();
            element_writer(&pre, fins[case["fin"].as_u64().unwrap() as usize], indents[case["indent"].as_u64().unwrap() as usize]).map(|_| ())
        }
        _ => Err("unknown case kind".into()),
    }
}
