//! C06 — Serialize-then-deserialize returns the original value.

use crate::common::*;
use crate::types::*;
use quick_xml::se::{QuoteLevel, Serializer};
use serde::Serialize;
use serde_json::{json, Value};

#[derive(Clone, Copy, Debug, PartialEq, Eq)]
pub struct SerCfg {
    pub level: u8,
    pub indent: bool,
    pub expand: bool,
    pub root: bool,
}

impl SerCfg {
    pub fn all() -> Vec<SerCfg> {
        let mut v = Vec::new();
        for level in 0..3 {
            for indent in [false, true] {
                for expand in [false, true] {
                    for root in [false, true] {
                        v.push(SerCfg { level, indent, expand, root });
                    }
                }
            }
        }
        v
    }
    pub fn plain() -> SerCfg {
        SerCfg { level: 1, indent: false, expand: false, root: false }
    }
    pub fn index(&self) -> u64 {
        (self.level as u64) * 8 + (self.indent as u64) * 4 + (self.expand as u64) * 2 + self.root as u64
    }
    pub fn from_index(i: u64) -> SerCfg {
        SerCfg { level: (i / 8) as u8, indent: i & 4 != 0, expand: i & 2 != 0, root: i & 1 != 0 }
    }
}

pub fn ser<T: Serialize>(v: &T, cfg: SerCfg) -> Result<String, String> {
    guarded_mut(|| -> Result<String, String> {
        let mut out = String::new();
        let mut s = if cfg.root {
            Serializer::with_root(&mut out, Some("r")).map_err(|e| format!("{:?}", e))?
        } else {
            Serializer::new(&mut out)
        };
        s.set_quote_level(match cfg.level {
            0 => QuoteLevel::Full,
            1 => QuoteLevel::Partial,
            _ => QuoteLevel::Minimal,
        });
        if cfg.indent {
            s.indent(' ', 2);
        }
        s.expand_empty_elements(cfg.expand);
        v.serialize(s).map_err(|e| format!("{:?}", e))?;
        Ok(out)
    })
    .map_err(|p| format!("panic in serializer: {}", p))?
}

pub fn de<T: Fam>(xml: &str) -> Result<T, String> {
    guarded(|| quick_xml::de::from_str::<T>(xml).map_err(|e| format!("{:?}", e))).map_err(|p| format!("panic in deserializer: {}", p))?
}

pub fn de_reader<T: Fam>(xml: &str) -> Result<T, String> {
    guarded(|| quick_xml::de::from_reader::<_, T>(xml.as_bytes()).map_err(|e| format!("{:?}", e))).map_err(|p| format!("panic in deserializer: {}", p))?
}

pub enum Outcome {
    Ok(String),
    Known(&'static str, String),
    Bad(String),
}

pub fn round_trip<T: Fam>(v: &T, cfg: SerCfg, known: &Known) -> Outcome {
    let xml = match ser(v, cfg) {
        Ok(x) => x,
        Err(e) => return classify(v, known, format!("serialization failed: {}", e), None::<&T>),
    };
    // sibling entry points of the serializer must write the same document: to_writer (fmt::Write),
    // to_utf8_io_writer into a sink that takes one byte per call, to_string_with_root
    if cfg == SerCfg::plain() {
        let via = guarded_mut(|| -> Result<(), String> {
            // (what is demanded of a sibling entry point is the property itself — its output deserializes to the
            // value —, not byte identity with to_string)
            let mut a = String::new();
            quick_xml::se::to_writer(&mut a, v).map_err(|e| format!("to_writer fails: {:?}", e))?;
            match de::<T>(&a) {
                Ok(back) if back == *v => {}
                other if a == xml => { let _ = other; } // same document as to_string: judged below
                other => return Err(format!("to_writer gives {:?}, deserialized as {:?}", a, other)),
            }
            let mut sink = crate::props::c13::ShortSink { out: Vec::new(), max: 1 };
            quick_xml::se::to_utf8_io_writer(&mut sink, v).map_err(|e| format!("to_utf8_io_writer fails: {:?}", e))?;
            let text = String::from_utf8(sink.out).map_err(|_| "to_utf8_io_writer wrote bytes that are not UTF-8".to_string())?;
            match de::<T>(&text) {
                Ok(back) if back == *v => {}
                other if text == xml => { let _ = other; }
                other => return Err(format!("to_utf8_io_writer into a one-byte-per-call sink gives {:?}, deserialized as {:?}", text, other)),
            }
            let b = quick_xml::se::to_string_with_root("r", v).map_err(|e| format!("to_string_with_root fails: {:?}", e))?;
            match de::<T>(&b) {
                Ok(back) if back == *v => {}
                // the same round trip under another root name: the known-finding shapes fail here as they do below
                Ok(back) if v.without_empty_text_items().map_or(false, |e| e == back) => return Err(format!("ROOT-F5 serialized as {:?}, deserialized as {:?}", b, back)),
                Ok(back) if v.with_items_split_at_blanks().map_or(false, |e| e == back) => return Err(format!("ROOT-F6 serialized as {:?}, deserialized as {:?}", b, back)),
                Ok(back) => return Err(format!("ROOT serialized as {:?}, deserialized as {:?}", b, back)),
                Err(e) => return Err(format!("ROOT serialized as {:?}, deserialization failed: {}", b, e)),
            }
            Ok(())
        });
        match via {
            Ok(Ok(())) => {}
            Ok(Err(e)) if e.starts_with("ROOT-F5 ") && known.is_open("F5") && v.shape() == Some(Shape::F5) => return Outcome::Known("F5", format!("to_string_with_root: {}", &e[8..])),
            Ok(Err(e)) if e.starts_with("ROOT-F6 ") && known.is_open("F6") && v.shape() == Some(Shape::F6) => return Outcome::Known("F6", format!("to_string_with_root: {}", &e[8..])),
            Ok(Err(e)) if e.starts_with("ROOT ") => return classify(v, known, format!("to_string_with_root: {}", &e[5..]), None::<&T>),
            Ok(Err(e)) => return Outcome::Bad(format!("serialized as {:?} by to_string, but {}", xml, e)),
            Err(p) => return Outcome::Bad(format!("panic in a serializer entry point: {}", p)),
        }
    }
    match de::<T>(&xml) {
        Ok(back) if back == *v => match de_reader::<T>(&xml) {
            Ok(b2) if b2 == *v => Outcome::Ok(xml),
            other => Outcome::Bad(format!("from_reader({:?}) gives {:?}", xml, other)),
        },
        Ok(back) => classify(v, known, format!("serialized as {:?}, deserialized as {:?}", xml, back), Some(&back)),
        Err(e) => classify(v, known, format!("serialized as {:?}, deserialization failed: {}", xml, e), None),
    }
}

fn classify<T: Fam>(v: &T, known: &Known, what: String, back: Option<&T>) -> Outcome {
    // F5, second form: an empty text item of a mixed list is written as nothing and is therefore not read back
    if v.shape() == Some(Shape::F5) && known.is_open("F5") {
        if let (Some(b), Some(e)) = (back, v.without_empty_text_items()) {
            if *b == e {
                return Outcome::Known("F5", what);
            }
        }
    }
    match v.shape() {
        // F5: the empty string in a text position without a default is written as nothing and then missed as a field
        Some(Shape::F5) if known.is_open("F5") && !what.starts_with("serialization failed") && what.contains("missing field `$") => Outcome::Known("F5", what),
        // F6: exactly the list whose items were split at their blanks
        Some(Shape::F6) if known.is_open("F6") && back.is_some() && v.with_items_split_at_blanks().as_ref() == back => Outcome::Known("F6", what),
        _ => Outcome::Bad(what),
    }
}

fn sweep<T: Fam>(ctx: &Ctx, ln: u32, level: usize, known: &Known) {
    let vals = T::values(level);
    let cfgs = SerCfg::all();
    let seed = ctx.seed;
    let n = vals.len() as u64;
    ctx.layer(T::NAME, ln, n * cfgs.len() as u64, json!({"values": n, "serializer_configurations": cfgs.len()}), |i, acc| {
        let v = &vals[(i / cfgs.len() as u64) as usize];
        let cfg = cfgs[(i % cfgs.len() as u64) as usize];
        acc.evaluations += 1;
        acc.traces += 1;
        acc.transitions += 3;
        match round_trip(v, cfg, known) {
            Outcome::Ok(xml) => {
                acc.nt_count += 1;
                if cfg == SerCfg::plain() {
                    // document skeleton: markup with text and attribute values blanked
                    let mut sk = String::new();
                    let mut in_tag = false;
                    let mut in_q = None;
                    for c in xml.chars() {
                        match (in_tag, in_q, c) {
                            (false, _, '<') => { in_tag = true; sk.push(c) }
                            (true, None, '>') => { in_tag = false; sk.push(c) }
                            (true, None, '"') | (true, None, '\'') => in_q = Some(c),
                            (true, Some(q), x) if x == q => in_q = None,
                            (true, None, x) => sk.push(x),
                            _ => {}
                        }
                    }
                    acc.state(h64(&(T::NAME, sk)));
                    acc.sample(seed, i ^ ((ln as u64) << 32), || json!({"type": T::NAME, "value": format!("{:?}", v), "xml": xml}));
                }
            }
            Outcome::Known(id, what) => acc.known(id, || format!("{} {:?}: {}", T::NAME, v, what)),
            Outcome::Bad(what) => {
                acc.count(&format!("violations.{}", T::NAME), 1);
                if std::env::var("QXMC_TRIAGE").is_ok() && cfg == SerCfg::plain() {
                    eprintln!("TRIAGE {} {:?}: {}", T::NAME, v, what);
                }
                acc.violation(
                (ln, i),
                format!("{} value {:?} with {:?}: {}", T::NAME, v, cfg, what),
                json!({"type": T::NAME, "value_index": i / cfgs.len() as u64, "cfg": cfg.index(), "level": level}),
            )}
        }
    });
}

const PAYLOAD_ALPHA: [&str; 16] = ["<", ">", "&", "'", "\"", " ", "\t", "\n", "\r", "\x0C", "]", ";", "#", "a", "é", "\u{FEFF}"];

/// Every string up to `max` over the payload alphabet in every payload position of `T`.
fn sweep_payloads<T: Fam>(ctx: &Ctx, ln: u32, max: u32, known: &Known) {
    if T::payload("a").is_empty() {
        return;
    }
    let k = PAYLOAD_ALPHA.len() as u64;
    let cfgs = SerCfg::all();
    ctx.layer(&format!("payloads.{}", T::NAME), ln, count_upto(k, max), json!({"alphabet": PAYLOAD_ALPHA, "max_len": max, "serializer_configurations": cfgs.len()}), |i, acc| {
        let mut d = Vec::new();
        decode_upto(k, max, i, &mut d);
        let s: String = d.iter().map(|&x| PAYLOAD_ALPHA[x as usize]).collect();
        for (pi, v) in T::payload(&s).iter().enumerate() {
            for &cfg in &cfgs {
                acc.evaluations += 1;
                acc.traces += 1;
                acc.transitions += 3;
                match round_trip(v, cfg, known) {
                    Outcome::Ok(_) => acc.nt_count += 1,
                    Outcome::Known(id, what) => acc.known(id, || format!("{} {:?}: {}", T::NAME, v, what)),
                    Outcome::Bad(what) => {
                        acc.count(&format!("violations.{}", T::NAME), 1);
                        if std::env::var("QXMC_TRIAGE").is_ok() && cfg == SerCfg::plain() {
                            eprintln!("TRIAGE {} {:?}: {}", T::NAME, v, what);
                        }
                        acc.violation(
                            (ln, i),
                            format!("{} value {:?} with {:?}: {}", T::NAME, v, cfg, what),
                            json!({"type": T::NAME, "payload": s, "payload_position": pi, "cfg": cfg.index()}),
                        )
                    }
                }
            }
        }
    });
}

/// Size thresholds of the escaping / splitting / trimming code: `filler^p . item . filler^q` in every
/// payload position, p through every small size, q around the powers of two; three quote levels.
const LONG_ITEMS: [&str; 12] = [" ", "\t", "\n", "<", ">", "&", "'", "\"", "]]>", "&amp;", "\u{FEFF}", "a b  c"];
const LONG_FILLERS: [&str; 3] = ["a", "\u{e9}", "0"];

fn sweep_long_payloads<T: Fam>(ctx: &Ctx, ln: u32, known: &Known) {
    if T::payload("a").is_empty() {
        return;
    }
    let ps: Vec<u32> = (0..=ctx.tier.pick(40, 130)).collect();
    let qs: Vec<u32> = ctx.tier.pick(vec![0, 1, 2, 7, 15, 16, 17, 31, 32, 33, 40, 63, 64, 65], crate::inputs::size_list(3, 10));
    let (np, nq, ni, nf) = (ps.len() as u64, qs.len() as u64, LONG_ITEMS.len() as u64, LONG_FILLERS.len() as u64);
    let cfgs: Vec<SerCfg> = (0..3).map(|level| SerCfg { level, indent: false, expand: false, root: false }).collect();
    ctx.layer(&format!("long_payloads.{}", T::NAME), ln, np * nq * ni * nf, json!({"shape": "filler^p . item . filler^q", "items": LONG_ITEMS, "fillers": LONG_FILLERS, "p": format!("0..={}", ps.len() - 1), "q": qs, "serializer_configurations": "3 quote levels"}), |i0, acc| {
        let mut i = i0;
        let q = qs[(i % nq) as usize];
        i /= nq;
        let p = ps[(i % np) as usize];
        i /= np;
        let item = LONG_ITEMS[(i % ni) as usize];
        let f = LONG_FILLERS[(i / ni) as usize];
        let s = format!("{}{}{}", f.repeat(p as usize), item, f.repeat(q as usize));
        for (pi, v) in T::payload(&s).iter().enumerate() {
            for &cfg in &cfgs {
                acc.evaluations += 1;
                acc.traces += 1;
                acc.transitions += 3;
                match round_trip(v, cfg, known) {
                    Outcome::Ok(_) => acc.nt_count += 1,
                    Outcome::Known(id, what) => acc.known(id, || format!("{} {:?}: {}", T::NAME, v, what)),
                    Outcome::Bad(what) => {
                        acc.count(&format!("violations.{}", T::NAME), 1);
                        acc.violation(
                            (ln, i0),
                            format!("{} value {:?} with {:?}: {}", T::NAME, v, cfg, what),
                            json!({"type": T::NAME, "payload": s, "payload_position": pi, "cfg": cfg.index()}),
                        )
                    }
                }
            }
        }
    });
}

pub fn run(ctx: &Ctx) {
    ctx.set_rule(
        "for each of the 23 types of the family (attributes; optional attributes; child elements of string/number/bool/char; $text \
         with and without default; $value string; optional elements and structs; element lists of strings, numbers and structs; $text \
         and attribute simple lists; unit enums in attribute, element and $text position; unit/newtype/struct/$text variants in a \
         $value field; mixed $value lists without adjacent text items; nested structs; maps with name-like keys; newtype and tuple \
         fields; numeric extremes; top-level enum; renamed root/fields) EVERY value of the cartesian product of its small field domains \
         (hostile string pool: markup characters, entity look-alikes, ]]>, quotes, blanks inside, non-ASCII, empty; lists of length \
         0..2/3; options; numeric extremes) x 3 quote levels x indent off/on x expand-empty off/on x root name from the type / \
         with_root; plus, per payload position of each type (attribute, element text, $text, $value, list item in attribute / text, \
         map value, newtype / struct / $text variant payload, char), every string up to length 3/5 over {< > & ' \" space tab LF CR FF ] ; # a é U+FEFF} (and, for size thresholds, filler^p . item . filler^q with p <= 40/130 and q around the powers of two, three quote levels) \
         inside that position's documented domain: to_string must succeed (and, under the plain configuration, the output of to_writer, of to_utf8_io_writer into a one-byte-per-call sink and of to_string_with_root must deserialize to the value as well) and from_str and from_reader of the output must equal the value. non-trivial = every \
         round trip (all values carry markup-relevant payloads or structure); distinct by construction. states = distinct document \
         skeletons produced",
    );
    ctx.assume("documented exclusions: element/text strings with leading or trailing XML white space; empty items of simple lists");
    ctx.assume("the type family is fixed (listed in the layers); values outside the enumerated domains are not explored");
    let level = match ctx.tier {
        Tier::Quick => 0,
        Tier::Thorough => 1,
    };
    let known = Known::load();
    let mut ln = 0;
    macro_rules! go {
        ($($t:ident),*) => { $( sweep::<$t>(ctx, ln, level, &known); ln += 1; )* };
    }
    crate::for_each_type!(go);
    let max = ctx.tier.pick(3, 5);
    macro_rules! go2 {
        ($($t:ident),*) => { $( sweep_payloads::<$t>(ctx, ln, max, &known); ln += 1; )* };
    }
    crate::for_each_type!(go2);
    macro_rules! go3 {
        ($($t:ident),*) => { $( sweep_long_payloads::<$t>(ctx, ln, &known); ln += 1; )* };
    }
    crate::for_each_type!(go3);
    let _ = ln;
}

pub fn replay(case: &Value) -> Result<(), String> {
    let name = case["type"].as_str().ok_or("no type")?;
    let idx = case["value_index"].as_u64().unwrap_or(0) as usize;
    let cfg = SerCfg::from_index(case["cfg"].as_u64().unwrap());
    let level = case["level"].as_u64().unwrap_or(0) as usize;
    let known = Known::load();
    let mut result = Err(format!("unknown type {}", name));
    macro_rules! go {
        ($($t:ident),*) => { $( if name == <$t as Fam>::NAME {
            let vals = match case.get("payload").and_then(|p| p.as_str()) {
                Some(p) => <$t as Fam>::payload(p),
                None => <$t as Fam>::values(level),
            };
            let idx = case.get("payload_position").and_then(|p| p.as_u64()).map_or(idx, |p| p as usize);
            let v = &vals[idx];
            println!("type {} value {:?} {:?}", name, v, cfg);
            println!("serialized: {:?}", ser(v, cfg));
            result = match round_trip(v, cfg, &known) {
                Outcome::Ok(_) => Ok(()),
                Outcome::Known(id, w) => Err(format!("known finding {}: {}", id, w)),
                Outcome::Bad(w) => Err(w),
            };
        } )* };
    }
    crate::for_each_type!(go);
    result
}
