//! C16 — Reader options change the event stream only in their documented way.
//!
//! Differential against the implementation itself: the stream read under the neutral configuration
//! is pushed through the documented transformation of each switch (`models::layer`) and compared
//! with the stream the real reader produces under that configuration — events, errors and the
//! position after every source construct — for all 128 configurations.

use super::c01::Run;
use crate::common::*;
use crate::inputs::*;

pub fn run(ctx: &Ctx) {
    ctx.set_rule(
        "every input of layers A (all strings over the 14-byte markup alphabet), C (atom sequences) and D \
         (construct contexts) x all 128 configurations; layers A and C again on the buffered reader with piece sizes 1, 2, 3. One execution = the real slice reader under cfg, compared \
         with T_cfg(neutral run of the same reader): Empty -> Start+End of the same name, text trimmed / dropped \
         when empty, end names right-trimmed, comments with `--` -> error, end-name checks against the \
         open-element stack; buffer position after every source construct and error position of errors present \
         in both runs must be unchanged. non-trivial = the neutral stream contains markup or an error; distinct \
         inputs (layer A by construction, others by hash). states = distinct event-kind sequences",
    );
    ctx.assume("the neutral run is taken as the meaning of the document (its lexical correctness is C01's business)");
    let t = ctx.tier;
    let full = cfg!(feature = "full");
    let all: Vec<u8> = (0..128).collect();
    let a_len = t.pick(6, 7);
    let mut run = Run { ctx, known: Known::load(), layer_no: 0, a_len: a_len as usize, neutral: true, script: None };
    if !full {
        run.space(&raw("A.raw_x_cfg(min)", SIGMA_M, t.pick(4, 5)), &all, true);
        return;
    }
    run.space(&raw("A.raw_x_cfg", SIGMA_M, a_len), &all, true);
    run.space(&atoms("C.atoms_x_cfg", ATOMS_C, t.pick(4, 5)), &all, false);
    for sp in contexts(|m| t.pick(m.min(5), m), false) {
        run.space(&sp, &all, false);
    }
    run.space(&decl_case(t.pick(4, 5)), &all, false);
    run.space(&ws_class(), &all, false);
    run.space(&mid_bom(t.pick(3, 4)), &all, false);
    // size thresholds (long names, texts, blank runs, bodies, nesting, counts) under every configuration
    run.space(&stretch("S.stretch", STRETCH_READER, t.pick(20, 70), t.pick(10, 16), t.pick(4, 7)), &all, false);
    // the same metamorphic relation on the buffered reader (option handling that lives in the
    // source: skip_whitespace for trim_text_start, buffer reuse), under three chunkings
    for piece in [1usize, 2, 3] {
        run.script = Some(crate::env::Script::pieces(piece));
        run.space(&raw(&format!("A.raw_x_cfg.buffered(piece={})", piece), SIGMA_M, t.pick(5, 6)), &all, false);
        run.space(&atoms(&format!("C.atoms_x_cfg.buffered(piece={})", piece), ATOMS_C, t.pick(3, 4)), &all, false);
    }
    let sixteen: Vec<u8> = (0..128u8).filter(|c| c & (crate::trace::CHECK_COMMENTS | crate::trace::ALLOW_UNMATCHED | crate::trace::CHECK_END_NAMES) == crate::trace::ALLOW_UNMATCHED).collect();
    for piece in [7usize, 64] {
        run.script = Some(crate::env::Script::pieces(piece));
        run.space(&stretch(&format!("S.stretch.buffered(piece={})", piece), STRETCH_READER, t.pick(12, 40), t.pick(9, 13), t.pick(3, 6)), &sixteen, false);
    }
}
