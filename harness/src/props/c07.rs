//! C07 — Deserialization is total: any input gives a value or an error, never a panic.
//!
//! Token soup (every sequence of up to N tokens over a 25-token alphabet that contains every kind
//! of construct the event reader accepts, well-formed or not), bare and wrapped in a root, plus
//! every truncation of every valid document of the C06 family, is deserialized into every target
//! type through `from_str` and `from_reader`. A watchdog turns non-termination into a violation;
//! sequences and maps are collected through bounded visitors so that an endless sequence is
//! reported instead of exhausting memory.

use crate::common::*;
use crate::env::{Script, Source};
use crate::props::c06::{ser, SerCfg};
use crate::types::*;
use serde::de::{DeserializeOwned, IgnoredAny, MapAccess, SeqAccess, Visitor};
use serde::Deserialize;
use serde_json::{json, Value};
use std::collections::HashMap;
use std::fmt;
use std::marker::PhantomData;
use std::sync::Mutex;
use std::time::{Duration, Instant};

const SEQ_LIMIT: usize = 4096;

thread_local! {
    static ENDLESS: std::cell::Cell<bool> = std::cell::Cell::new(false);
}

/// `Vec` with a bounded visitor.
#[derive(Debug, PartialEq)]
pub struct BVec<T>(pub Vec<T>);
impl<'de, T: Deserialize<'de>> Deserialize<'de> for BVec<T> {
    fn deserialize<D: serde::Deserializer<'de>>(d: D) -> Result<Self, D::Error> {
        struct V<T>(PhantomData<T>);
        impl<'de, T: Deserialize<'de>> Visitor<'de> for V<T> {
            type Value = BVec<T>;
            fn expecting(&self, f: &mut fmt::Formatter) -> fmt::Result {
                f.write_str("a sequence")
            }
            fn visit_seq<A: SeqAccess<'de>>(self, mut seq: A) -> Result<Self::Value, A::Error> {
                let mut v = Vec::new();
                while let Some(x) = seq.next_element()? {
                    v.push(x);
                    if v.len() > SEQ_LIMIT {
                        ENDLESS.with(|e| e.set(true));
                        return Err(serde::de::Error::custom("ENDLESS SEQUENCE"));
                    }
                }
                Ok(BVec(v))
            }
        }
        d.deserialize_seq(V(PhantomData))
    }
}

/// map with a bounded visitor
#[derive(Debug, PartialEq)]
pub struct BMap(pub HashMap<String, String>);
impl<'de> Deserialize<'de> for BMap {
    fn deserialize<D: serde::Deserializer<'de>>(d: D) -> Result<Self, D::Error> {
        struct V;
        impl<'de> Visitor<'de> for V {
            type Value = BMap;
            fn expecting(&self, f: &mut fmt::Formatter) -> fmt::Result {
                f.write_str("a map")
            }
            fn visit_map<A: MapAccess<'de>>(self, mut map: A) -> Result<Self::Value, A::Error> {
                let mut m = HashMap::new();
                let mut n = 0;
                while let Some((k, v)) = map.next_entry::<String, String>()? {
                    m.insert(k, v);
                    n += 1;
                    if n > SEQ_LIMIT {
                        ENDLESS.with(|e| e.set(true));
                        return Err(serde::de::Error::custom("ENDLESS MAP"));
                    }
                }
                Ok(BMap(m))
            }
        }
        d.deserialize_map(V)
    }
}

/// map with a bounded visitor and an arbitrary value type
#[derive(Debug, PartialEq)]
pub struct BMapV<T>(pub usize, PhantomData<T>);
impl<'de, T: Deserialize<'de>> Deserialize<'de> for BMapV<T> {
    fn deserialize<D: serde::Deserializer<'de>>(d: D) -> Result<Self, D::Error> {
        struct V<T>(PhantomData<T>);
        impl<'de, T: Deserialize<'de>> Visitor<'de> for V<T> {
            type Value = BMapV<T>;
            fn expecting(&self, f: &mut fmt::Formatter) -> fmt::Result {
                f.write_str("a map")
            }
            fn visit_map<A: MapAccess<'de>>(self, mut map: A) -> Result<Self::Value, A::Error> {
                let mut n = 0;
                while let Some((_, _)) = map.next_entry::<String, T>()? {
                    n += 1;
                    if n > SEQ_LIMIT {
                        ENDLESS.with(|e| e.set(true));
                        return Err(serde::de::Error::custom("ENDLESS MAP"));
                    }
                }
                Ok(BMapV(n, PhantomData))
            }
        }
        d.deserialize_map(V(PhantomData))
    }
}

/// a tuple struct without fields: its visitor takes no element of the sequence it is offered
#[derive(Deserialize, Debug, PartialEq)]
pub struct EmptyTuple();

#[derive(Deserialize, Debug, PartialEq)]
pub struct SEmptySeqs {
    #[serde(default)]
    a: [u8; 0],
    #[serde(default = "empty")]
    b: BVec<[u8; 0]>,
    #[serde(default)]
    c: Option<EmptyTuple>,
}

// ------------------------------------------------------------------------------------------------
// Target types: field / variant names a, b, c, x, $text, $value so that the tokens hit them

#[derive(Deserialize, Debug, PartialEq)]
pub struct SAttr {
    #[serde(rename = "@x", default)]
    x: Option<String>,
    #[serde(default)]
    a: Option<String>,
    #[serde(default)]
    b: Option<u8>,
}

#[derive(Deserialize, Debug, PartialEq)]
pub struct SReq {
    #[serde(rename = "@x")]
    x: String,
    a: String,
    c: SAttr,
}

#[derive(Deserialize, Debug, PartialEq)]
pub struct SLists {
    #[serde(default = "empty")]
    a: BVec<String>,
    #[serde(default = "empty")]
    b: BVec<SAttr>,
    #[serde(default)]
    c: Option<SAttr>,
}
fn empty<T>() -> BVec<T> {
    BVec(Vec::new())
}

#[derive(Deserialize, Debug, PartialEq)]
pub struct SText {
    #[serde(rename = "@x", default)]
    x: String,
    #[serde(rename = "$text", default)]
    t: String,
}

#[derive(Deserialize, Debug, PartialEq)]
pub struct STextList {
    #[serde(rename = "$text", default = "empty")]
    t: BVec<String>,
    #[serde(rename = "@x", default = "empty")]
    x: BVec<String>,
}

#[derive(Deserialize, Debug, PartialEq)]
#[allow(non_camel_case_types)]
pub enum Ch {
    a,
    b(String),
    c {
        #[serde(rename = "@x", default)]
        x: String,
        #[serde(default)]
        a: Option<String>,
    },
    #[serde(rename = "$text")]
    T(String),
}

#[derive(Deserialize, Debug, PartialEq)]
pub struct SValue {
    #[serde(rename = "$value")]
    v: Ch,
}
#[derive(Deserialize, Debug, PartialEq)]
pub struct SValueVec {
    #[serde(rename = "@x", default)]
    x: Option<String>,
    #[serde(rename = "$value", default = "empty")]
    v: BVec<Ch>,
}
#[derive(Deserialize, Debug, PartialEq)]
pub struct SValueTuple {
    #[serde(rename = "$value")]
    v: (Ch, Ch),
}
#[derive(Deserialize, Debug, PartialEq)]
pub struct SValueString {
    #[serde(rename = "$value", default)]
    v: String,
    #[serde(default)]
    a: Option<String>,
}
/// optional `$value` content, also inside list items (the `xsi:nil` handling of a parent element
/// asks `deserialize_option` about text, not only about elements)
#[derive(Deserialize, Debug, PartialEq)]
pub struct SOptValue {
    #[serde(rename = "$value", default)]
    v: Option<String>,
}
#[derive(Deserialize, Debug, PartialEq)]
pub struct SOptHolder {
    #[serde(rename = "@x", default)]
    x: Option<String>,
    #[serde(default = "empty")]
    a: BVec<SOptValue>,
    #[serde(default)]
    b: Option<SOptValue>,
}
#[derive(Deserialize, Debug)]
pub struct SIgnored {
    #[serde(default)]
    a: IgnoredAny,
    #[serde(default)]
    b: (),
    #[serde(default)]
    c: Option<()>,
}
#[derive(Deserialize, Debug, PartialEq)]
pub struct NStr(String);
#[derive(Deserialize, Debug, PartialEq)]
pub struct NStruct(SAttr);
#[derive(Deserialize, Debug, PartialEq)]
pub struct UnitS;
#[derive(Deserialize, Debug, PartialEq)]
pub struct SPrims {
    #[serde(default)]
    a: bool,
    #[serde(default)]
    b: f32,
    #[serde(default)]
    c: char,
    #[serde(rename = "@x", default)]
    x: i64,
}
#[derive(Deserialize, Debug, PartialEq)]
#[allow(non_camel_case_types)]
pub enum UnitOnly {
    a,
    b,
    #[serde(other)]
    Other,
}
#[derive(Deserialize, Debug, PartialEq)]
pub struct SEnumFields {
    #[serde(rename = "@x", default = "other")]
    x: UnitOnly,
    #[serde(default = "other")]
    a: UnitOnly,
    #[serde(rename = "$text", default = "other")]
    t: UnitOnly,
}
fn other() -> UnitOnly {
    UnitOnly::Other
}
#[derive(Deserialize, Debug, PartialEq)]
pub struct SNestedSeq {
    #[serde(default = "empty")]
    a: BVec<SLists>,
    #[serde(default)]
    b: Option<Box<SNestedSeq>>,
}

/// A legal but lazy `Deserialize`: looks at the first key of a map only (`N = 1`) or at nothing (`N = 0`).
#[derive(Debug, PartialEq)]
pub struct Lazy<const N: usize>(pub Option<String>);
impl<'de, const N: usize> Deserialize<'de> for Lazy<N> {
    fn deserialize<D: serde::Deserializer<'de>>(d: D) -> Result<Self, D::Error> {
        struct V<const N: usize>;
        impl<'de, const N: usize> Visitor<'de> for V<N> {
            type Value = Lazy<N>;
            fn expecting(&self, f: &mut fmt::Formatter) -> fmt::Result {
                f.write_str("a map")
            }
            fn visit_map<A: MapAccess<'de>>(self, mut map: A) -> Result<Self::Value, A::Error> {
                if N == 0 {
                    return Ok(Lazy(None));
                }
                match map.next_key::<String>()? {
                    Some(k) => {
                        let _: IgnoredAny = map.next_value()?;
                        Ok(Lazy(Some(k)))
                    }
                    None => Ok(Lazy(None)),
                }
            }
        }
        d.deserialize_map(V::<N>)
    }
}
#[derive(Deserialize, Debug, PartialEq)]
pub struct SLazy {
    #[serde(default = "empty")]
    a: BVec<Lazy<1>>,
    #[serde(default)]
    b: Option<Lazy<0>>,
}

pub const TARGETS: [&str; 45] = [
    "SAttr", "SReq", "SLists", "SText", "STextList", "Ch", "SValue", "SValueVec", "SValueTuple", "SValueString", "SIgnored", "NStr",
    "NStruct", "UnitS", "SPrims", "UnitOnly", "SEnumFields", "SNestedSeq", "BVec<Ch>", "BVec<String>", "BVec<Option<String>>",
    "(String,u8)", "Option<SAttr>", "()", "BMap", "String", "IgnoredAny", "Lazy<1>", "Lazy<0>", "BVec<Lazy<1>>", "BVec<Lazy<0>>", "SLazy", "SOptValue", "SOptHolder",
    "BMapV<[u8;0]>", "BMapV<()>", "BMapV<EmptyTuple>", "BMapV<BVec<String>>", "BMapV<(String,String)>", "((),())", "(IgnoredAny,IgnoredAny)", "BVec<()>", "BVec<[u8;0]>", "SEmptySeqs", "BMapV<UnitS>",
];

fn de_any<T: DeserializeOwned>(input: &[u8], via_reader: bool, piece: usize) -> Result<bool, String> {
    ENDLESS.with(|e| e.set(false));
    let r = guarded(|| {
        if via_reader {
            let script = Script::pieces(piece);
            quick_xml::de::from_reader::<_, T>(Source::new(input, &script)).is_ok()
        } else {
            match std::str::from_utf8(input) {
                Ok(s) => quick_xml::de::from_str::<T>(s).is_ok(),
                Err(_) => false,
            }
        }
    });
    if ENDLESS.with(|e| e.get()) {
        return Err(format!("endless sequence: more than {} elements were produced from {} bytes of input", SEQ_LIMIT, input.len()));
    }
    r.map_err(|p| format!("panic: {}", p))
}

/// Dispatch on the target index. Returns Ok(deserialized_ok) or Err(violation).
pub fn de_target(t: usize, input: &[u8], via_reader: bool, piece: usize) -> Result<bool, String> {
    match t {
        0 => de_any::<SAttr>(input, via_reader, piece),
        1 => de_any::<SReq>(input, via_reader, piece),
        2 => de_any::<SLists>(input, via_reader, piece),
        3 => de_any::<SText>(input, via_reader, piece),
        4 => de_any::<STextList>(input, via_reader, piece),
        5 => de_any::<Ch>(input, via_reader, piece),
        6 => de_any::<SValue>(input, via_reader, piece),
        7 => de_any::<SValueVec>(input, via_reader, piece),
        8 => de_any::<SValueTuple>(input, via_reader, piece),
        9 => de_any::<SValueString>(input, via_reader, piece),
        10 => de_any::<SIgnored>(input, via_reader, piece),
        11 => de_any::<NStr>(input, via_reader, piece),
        12 => de_any::<NStruct>(input, via_reader, piece),
        13 => de_any::<UnitS>(input, via_reader, piece),
        14 => de_any::<SPrims>(input, via_reader, piece),
        15 => de_any::<UnitOnly>(input, via_reader, piece),
        16 => de_any::<SEnumFields>(input, via_reader, piece),
        17 => de_any::<SNestedSeq>(input, via_reader, piece),
        18 => de_any::<BVec<Ch>>(input, via_reader, piece),
        19 => de_any::<BVec<String>>(input, via_reader, piece),
        20 => de_any::<BVec<Option<String>>>(input, via_reader, piece),
        21 => de_any::<(String, u8)>(input, via_reader, piece),
        22 => de_any::<Option<SAttr>>(input, via_reader, piece),
        23 => de_any::<()>(input, via_reader, piece),
        24 => de_any::<BMap>(input, via_reader, piece),
        25 => de_any::<String>(input, via_reader, piece),
        26 => de_any::<IgnoredAny>(input, via_reader, piece),
        27 => de_any::<Lazy<1>>(input, via_reader, piece),
        28 => de_any::<Lazy<0>>(input, via_reader, piece),
        29 => de_any::<BVec<Lazy<1>>>(input, via_reader, piece),
        30 => de_any::<BVec<Lazy<0>>>(input, via_reader, piece),
        31 => de_any::<SLazy>(input, via_reader, piece),
        32 => de_any::<SOptValue>(input, via_reader, piece),
        33 => de_any::<SOptHolder>(input, via_reader, piece),
        34 => de_any::<BMapV<[u8; 0]>>(input, via_reader, piece),
        35 => de_any::<BMapV<()>>(input, via_reader, piece),
        36 => de_any::<BMapV<EmptyTuple>>(input, via_reader, piece),
        37 => de_any::<BMapV<BVec<String>>>(input, via_reader, piece),
        38 => de_any::<BMapV<(String, String)>>(input, via_reader, piece),
        39 => de_any::<((), ())>(input, via_reader, piece),
        40 => de_any::<(IgnoredAny, IgnoredAny)>(input, via_reader, piece),
        41 => de_any::<BVec<()>>(input, via_reader, piece),
        42 => de_any::<BVec<[u8; 0]>>(input, via_reader, piece),
        43 => de_any::<SEmptySeqs>(input, via_reader, piece),
        44 => de_any::<BMapV<UnitS>>(input, via_reader, piece),
        _ => Err("bad target".into()),
    }
}

pub const TOKENS: [&str; 29] = [
    "<a>", "</a>", "<b>", "</b>", "<a/>", "<b x=\"1\"/>", "<c x=\"1\">", "</c>", "t", " ", "1", "<![CDATA[c]]>", "<![CDATA[]]>", "<!--c-->",
    "<!DOCTYPE d>", "<?p?>", "&lt;", "&bad;", "<a xsi:nil=\"true\">", "<a x=\"1\" x=\"2\">", "<a x=>", "<a \"k='v\">", "<a xmlns:xsi=\"http://www.w3.org/2001/XMLSchema-instance\" xsi:nil=\"1\"/>", "1\t2 \r\n3", "<b x=\"1\t2\n 3\"/>",
    "<a xmlns:xsi=\"http://www.w3.org/2001/XMLSchema-instance\" xsi:nil=\"true\">", "<b xmlns:n=\"http://www.w3.org/2001/XMLSchema-instance\" n:nil=\"1\">",
    "<!-->", "&#xD800;&#x0;",
];

// ------------------------------------------------------------------------------------------------
// Watchdog

/// What a worker thread is doing right now (one slot per thread, no contention between workers).
#[derive(Clone)]
struct Busy {
    since: Instant,
    input: Vec<u8>,
    target: i64,
    family: Option<String>,
    via_reader: bool,
    piece: usize,
}
type Slot = std::sync::Arc<Mutex<Option<Busy>>>;
static SLOTS: Mutex<Vec<Slot>> = Mutex::new(Vec::new());
thread_local! {
    static MY_SLOT: Slot = {
        let s: Slot = std::sync::Arc::new(Mutex::new(None));
        SLOTS.lock().unwrap().push(s.clone());
        s
    };
}

fn enter(input: &[u8], target: i64, family: Option<&str>, via_reader: bool, piece: usize) {
    MY_SLOT.with(|s| {
        *s.lock().unwrap() = Some(Busy { since: Instant::now(), input: input.to_vec(), target, family: family.map(|f| f.to_string()), via_reader, piece })
    });
}
fn leave() {
    MY_SLOT.with(|s| *s.lock().unwrap() = None);
}

fn busy_json(b: &Busy) -> Value {
    match &b.family {
        Some(f) => json!({"input": bytes_json(&b.input), "family_type": f}),
        None => json!({"input": bytes_json(&b.input), "target": b.target, "target_name": TARGETS[b.target as usize], "via_reader": b.via_reader, "piece": b.piece}),
    }
}

fn spawn_watchdog(prop: &'static str, tier: Tier) {
    std::thread::spawn(move || loop {
        std::thread::sleep(Duration::from_millis(500));
        let slots: Vec<Slot> = SLOTS.lock().unwrap().clone();
        for slot in slots {
            let b = slot.lock().unwrap().clone();
            let Some(b) = b else { continue };
            if b.since.elapsed() > Duration::from_secs(20) {
                // non-termination: report and end the run (the stuck thread cannot be stopped)
                let dir = format!("{}/replays/{}", verif_dir(), prop);
                let _ = std::fs::create_dir_all(&dir);
                let path = format!("{}/{}-{}-watchdog.json", dir, build_name(), tier.name());
                let case = busy_json(&b);
                let _ = std::fs::write(&path, serde_json::to_string_pretty(&json!({"property": prop, "build": build_name(), "what": "deserialization did not return within 20 s", "case": case})).unwrap());
                let ev = json!({
                    "property_id": prop, "tier": tier.name(), "seed": 0, "level": "model_checking",
                    "coverage": {"states": 1, "transitions": 1, "traces_validated_against_impl": 0, "evaluations": 1, "distinct_nontrivial": 0,
                        "rule": "run aborted by the watchdog: one deserialization call did not terminate", "samples": [case], "exhaustive": false, "build": build_name(),
                        "layers": [], "counters": {}, "hash_sets_capped": false, "known_findings": []},
                    "assumptions": [], "wall_s": 20.0, "violations": 1
                });
                let evdir = format!("{}/evidence/parts", verif_dir());
                let _ = std::fs::create_dir_all(&evdir);
                let _ = std::fs::write(format!("{}/{}.{}.json", evdir, prop, build_name()), serde_json::to_string_pretty(&ev).unwrap());
                println!("VIOLATION property={} replay={}", prop, path);
                eprintln!("[{}] watchdog: a deserialization call did not return within 20 s: {}", prop, case);
                std::process::exit(1);
            }
        }
    });
}

fn call(acc: &mut Acc, order: (u32, u64), input: &[u8], t: usize, via_reader: bool, piece: usize, known: &Known) {
    acc.evaluations += 1;
    acc.transitions += 1;
    acc.traces += 1;
    enter(input, t as i64, None, via_reader, piece);
    let r = de_target(t, input, via_reader, piece);
    leave();
    match r {
        Ok(ok) => {
            if ok {
                acc.count("deserialized_ok", 1);
            }
            acc.state(h64(&(t, ok)));
        }
        Err(what)
            if known.is_open("F11")
                && TARGETS[t].contains("Lazy")
                && (what.contains("entered unreachable code: BytesEnd") || what.contains("assertion `left == right` failed")) =>
        {
            // F11: a visitor that returns before draining its MapAccess leaves the rest of the element
            // unread; the next consumer starts in the middle of it
            acc.known("F11", || format!("{:?} as {}: {}", lossy(input), TARGETS[t], what));
        }
        Err(what)
            if known.is_open("F16")
                && what.starts_with("endless sequence")
                && matches!(TARGETS[t], "BMapV<[u8;0]>" | "BMapV<EmptyTuple>" | "BVec<[u8;0]>") =>
        {
            // F16: a sequence visitor that takes no element (zero-length array / tuple struct) as the value of a
            // map without duplicate detection: the element is never consumed and the map never ends
            acc.known("F16", || format!("{:?} as {}: {}", lossy(input), TARGETS[t], what));
        }
        Err(what) => {
            if std::env::var("QXMC_TRIAGE").is_ok() {
                let loc = what.rsplit(" @ ").next().unwrap_or("").to_string();
                acc.count(&format!("panic_at.{}.{}", TARGETS[t], loc), 1);
            }
            acc.violation(
                order,
                format!("{:?} as {} via {}: {}", lossy(input), TARGETS[t], if via_reader { format!("from_reader(pieces of {})", piece) } else { "from_str".into() }, what),
                json!({"input": bytes_json(input), "target": t, "target_name": TARGETS[t], "via_reader": via_reader, "piece": piece}),
            );
        }
    }
}

pub fn run(ctx: &Ctx) {
    ctx.set_rule(
        "token soup: every sequence of up to N tokens over 27 tokens (start/end/empty tags of names a, b, c with and without \
         attributes, text, blank, number, CDATA, empty CDATA, comment, DOCTYPE, PI, a predefined and an unknown entity reference, \
         xsi:nil in two spellings, duplicate attribute, attribute without value, an attribute whose quote the iterator cannot close although the tag scanner could), bare and wrapped in \
         <r>..</r>; plus every truncation at every byte of every plain serialization of the C06 family's quick value set. Each \
         document x 34 target types (structs with attributes / options / lists / nested structs, $text, $text list, $value enum \
         (single, Vec, tuple), $value string, IgnoredAny and unit fields, newtypes, unit struct, primitives, unit-only enum with \
         serde(other), nested sequences, top-level enum / sequence / tuple / Option / unit / map / String / IgnoredAny, and hand-written lazy visitors that read only the \
         first map key or nothing at all) x from_str \
         and from_reader (1-byte pieces; thorough: also whole). Oracle: the call returns Ok or Err under catch_unwind; no panic; sequences \
         and maps are collected through bounded visitors (an endless sequence is a violation); a watchdog reports a call that does not \
         return within 20 s. evaluations = deserialization calls; non-trivial = documents; states = (target, Ok/Err) outcomes seen",
    );
    ctx.assume("field / variant names of the target types are a, b, c, x, $text, $value so that the token alphabet reaches the matching paths");
    let t = ctx.tier;
    let known = Known::load();
    let seed = ctx.seed;
    spawn_watchdog("C07", t);
    let n = t.pick(4, 5);
    let k = TOKENS.len() as u64;
    let nt = TARGETS.len();
    let pieces: &[usize] = if t == Tier::Quick { &[1] } else { &[1, 0] };
    // nesting soup: longer sequences over the six tokens that decide nesting, into the targets that skip
    // content (unit, IgnoredAny, unknown fields, tuples of them) or count on matched tags
    const NEST: [&str; 7] = ["<a>", "</a>", "<b>", "</b>", "t", "<a/>", "<p:b/>"];
    const NEST_TARGETS: [usize; 15] = [0, 2, 10, 13, 22, 23, 24, 26, 35, 37, 39, 40, 41, 43, 44];
    let nn = t.pick(6, 8);
    ctx.layer("nesting_soup", 3, count_upto(7, nn), json!({"tokens": NEST, "max_tokens": nn, "targets": NEST_TARGETS.iter().map(|&t| TARGETS[t]).collect::<Vec<_>>()}), |i, acc| {
        let mut d = Vec::new();
        decode_upto(7, nn, i, &mut d);
        let mut doc = String::new();
        for &x in &d {
            doc.push_str(NEST[x as usize]);
        }
        acc.nt_count += 1;
        for &tt in &NEST_TARGETS {
            call(acc, (3, i), doc.as_bytes(), tt, false, 0, &known);
            for &p in pieces {
                call(acc, (3, i), doc.as_bytes(), tt, true, p, &known);
            }
        }
    });

    // characters: `char` targets from element content, CDATA and references (single-byte, multi-byte, too many, none)
    const CHAR_TEXTS: [&str; 12] = ["\u{e9}", "\u{e9}x", "&#233;", "<![CDATA[\u{436}]]>", "", "ab", "\u{10FFFF}", "a", "&#x1F600;", "\u{1F600}\u{1F600}", " \u{e9} ", "&lt;"];
    ctx.layer("char_targets", 5, CHAR_TEXTS.len() as u64 * 3, json!({"texts": CHAR_TEXTS, "documents": ["<r><c>X</c></r> as SPrims", "<c>X</c> as char", "<r><a>X</a><a>X</a></r> as a list / tuple of char"]}), |i, acc| {
        let x = CHAR_TEXTS[(i / 3) as usize];
        acc.nt_count += 1;
        for via in [false, true] {
            let r = match i % 3 {
                0 => de_any::<SPrims>(format!("<r><c>{}</c></r>", x).as_bytes(), via, 1),
                1 => de_any::<char>(format!("<c>{}</c>", x).as_bytes(), via, 1),
                _ => de_any::<BVec<char>>(format!("<a>{}</a><a>{}</a>", x, x).as_bytes(), via, 1).and(de_any::<(char, char)>(format!("<a>{}</a><a>{}</a>", x, x).as_bytes(), via, 1)),
            };
            acc.evaluations += 1;
            acc.transitions += 1;
            acc.traces += 1;
            if let Err(what) = r {
                acc.violation((5, i), format!("char target, text {:?} (shape {}) via {}: {}", x, i % 3, if via { "from_reader" } else { "from_str" }, what), json!({"input": bytes_json(format!("<r><c>{}</c></r>", x).as_bytes()), "target": 14, "target_name": "SPrims", "via_reader": via, "piece": 1}));
            }
        }
    });

    // prolog soup: declarations, DOCTYPEs (also with an internal subset), look-alike PIs anywhere in the document
    const PROLOG: [&str; 9] = ["<?xml version=\"1.0\"?>", "<?xml version=\"1.0\" encoding=\"UTF-8\" standalone=\"yes\"?>", "<!DOCTYPE d>", "<!DOCTYPE e [<!ENTITY x \"y\">]>", "<?xml-stylesheet href=\"s\"?>", "<a>", "</a>", "t", "&x;"];
    const PROLOG_TARGETS: [usize; 10] = [0, 2, 3, 9, 10, 13, 19, 23, 24, 25];
    let np = t.pick(5, 6);
    ctx.layer("prolog_soup", 4, count_upto(9, np), json!({"tokens": PROLOG, "max_tokens": np, "targets": PROLOG_TARGETS.iter().map(|&t| TARGETS[t]).collect::<Vec<_>>()}), |i, acc| {
        let mut d = Vec::new();
        decode_upto(9, np, i, &mut d);
        let mut doc = String::new();
        for &x in &d {
            doc.push_str(PROLOG[x as usize]);
        }
        acc.nt_count += 1;
        for &tt in &PROLOG_TARGETS {
            call(acc, (4, i), doc.as_bytes(), tt, false, 0, &known);
            for &p in pieces {
                call(acc, (4, i), doc.as_bytes(), tt, true, p, &known);
            }
        }
    });

    // documents in a non-UTF-8 encoding (owned, re-encoded content in the deserializer), `full` build only
    #[cfg(feature = "full")]
    {
        const W: [&[u8]; 5] = [b"\xE0", b"a", b" ", b"\xFF\xE0", b"1"];
        let kw = W.len() as u64;
        let maxw = t.pick(5, 6);
        ctx.layer("encoded_documents", 2, count_upto(kw, maxw) * 2, json!({"encodings": ["windows-1251", "Shift_JIS"], "payload_alphabet": W.iter().map(|w| lossy(w)).collect::<Vec<_>>(), "max_len": maxw, "positions": ["attribute x", "text"]}), |i, acc| {
            let mut d = Vec::new();
            decode_upto(kw, maxw, i / 2, &mut d);
            let w: Vec<u8> = d.iter().flat_map(|&x| W[x as usize].iter().copied()).collect();
            let enc = if i % 2 == 0 { "windows-1251" } else { "Shift_JIS" };
            let mut doc = format!("<?xml version=\"1.0\" encoding=\"{}\"?><r n", enc).into_bytes();
            // a (possibly long) non-ASCII attribute name, then a list-valued attribute
            doc.extend(w.iter().copied().filter(|b| *b != b' '));
            doc.extend_from_slice(b"=\"1\" x=\"");
            doc.extend_from_slice(&w);
            doc.extend_from_slice(b"\"><a x=\"1\">");
            doc.extend_from_slice(&w);
            doc.extend_from_slice(b"</a>");
            doc.extend_from_slice(&w);
            doc.extend_from_slice(b"</r>");
            acc.nt_count += 1;
            for tt in [0usize, 2, 3, 4, 7, 9, 16, 19, 24, 25] {
                for &p in &[1usize, 0] {
                    call(acc, (2, i), &doc, tt, true, p, &known);
                }
            }
        });
    }

    // truncations of valid documents, deserialized as their own type and as three generic targets
    let mut docs: Vec<(String, String)> = Vec::new();
    macro_rules! collect {
        ($($ty:ident),*) => { $( for v in <$ty as Fam>::values(0) { if let Ok(x) = ser(&v, SerCfg::plain()) { docs.push((<$ty as Fam>::NAME.to_string(), x)); } } )* };
    }
    crate::for_each_type!(collect);
    docs.sort();
    docs.dedup();
    ctx.layer("truncations", 1, docs.len() as u64, json!({"documents": docs.len(), "cuts": "every byte"}), |i, acc| {
        let (ty, doc) = &docs[i as usize];
        let b = doc.as_bytes();
        for cut in 0..b.len() {
            let input = &b[..cut];
            acc.nt_count += 1;
            // own type
            acc.evaluations += 1;
            acc.transitions += 1;
            acc.traces += 1;
            enter(input, -1, Some(ty), false, 0);
            let r = de_family(ty, input);
            leave();
            if let Err(what) = r {
                acc.violation((1, i), format!("{:?} as {}: {}", lossy(input), ty, what), json!({"input": bytes_json(input), "family_type": ty}));
            }
            for tt in [2usize, 7, 26] {
                call(acc, (1, i), input, tt, false, 0, &known);
            }
        }
    });
    // the big layer last: on a saturated machine a time cap then costs its tail, not a whole small layer
    ctx.layer("token_soup", 0, count_upto(k, n) * 2, json!({"tokens": TOKENS, "max_tokens": n, "wrappers": ["bare", "<r>..</r>"], "targets": TARGETS.to_vec()}), |i, acc| {
        let mut d = Vec::new();
        decode_upto(k, n, i / 2, &mut d);
        let mut doc = String::new();
        if i % 2 == 1 {
            doc.push_str("<r>");
        }
        for &x in &d {
            doc.push_str(TOKENS[x as usize]);
        }
        if i % 2 == 1 {
            doc.push_str("</r>");
        }
        acc.nt_count += 1;
        for tt in 0..nt {
            // the targets added for F16 (zero-consumption visitors; each endless case costs 4096 rounds) one token shallower
            if tt >= 34 && d.len() as u32 >= n {
                continue;
            }
            call(acc, (0, i), doc.as_bytes(), tt, false, 0, &known);
            for &p in pieces {
                call(acc, (0, i), doc.as_bytes(), tt, true, p, &known);
            }
        }
        acc.sample(seed, i, || json!({"document": doc}));
    });
}

fn de_family(ty: &str, input: &[u8]) -> Result<(), String> {
    let Ok(s) = std::str::from_utf8(input) else { return Ok(()) };
    let mut res = Ok(());
    macro_rules! go {
        ($($t:ident),*) => { $( if ty == <$t as Fam>::NAME {
            res = guarded(|| { let _ = quick_xml::de::from_str::<$t>(s); }).map_err(|p| format!("panic: {}", p));
        } )* };
    }
    crate::for_each_type!(go);
    res
}

pub fn replay(case: &Value) -> Result<(), String> {
    let input = bytes_from_json(&case["input"]);
    if let Some(ty) = case.get("family_type").and_then(|t| t.as_str()) {
        println!("{:?} as {}", lossy(&input), ty);
        return de_family(ty, &input);
    }
    let t = case["target"].as_u64().unwrap_or(0) as usize;
    let via = case["via_reader"].as_bool().unwrap_or(false);
    let piece = case["piece"].as_u64().unwrap_or(0) as usize;
    println!("{:?} as {} via_reader={} piece={}", lossy(&input), TARGETS[t], via, piece);
    spawn_watchdog("C07", Tier::Quick);
    enter(&input, t as i64, None, via, piece);
    let r = de_target(t, &input, via, piece);
    leave();
    r.map(|ok| println!("returned {}", if ok { "Ok" } else { "Err" }))
}
