//! C14 — Deserializing from a string and from any reader gives the same result.

use crate::common::*;
use crate::env::{Script, Source};
use crate::models::lex::lex;
use crate::props::c06::{ser, SerCfg};
use crate::props::c07::*;
use crate::types::*;
use serde::de::DeserializeOwned;
use serde_json::{json, Value};
use std::fmt::Debug;

/// Ok(true): both succeeded with equal values; Ok(false): both failed; Err: disagreement.
pub fn compare<T: DeserializeOwned + PartialEq + Debug>(doc: &str, script: &Script) -> Result<bool, String> {
    let a = guarded(|| quick_xml::de::from_str::<T>(doc).map_err(|e| format!("{:?}", e)));
    let b = guarded(|| quick_xml::de::from_reader::<_, T>(Source::new(doc.as_bytes(), script)).map_err(|e| format!("{:?}", e)));
    match (a, b) {
        (Ok(Ok(x)), Ok(Ok(y))) => {
            if x == y {
                Ok(true)
            } else {
                Err(format!("from_str gives {:?}, from_reader gives {:?}", x, y))
            }
        }
        (Ok(Err(_)), Ok(Err(_))) => Ok(false),
        // a panic is C07's business; here it only counts as "failed"
        (Err(_), Err(_)) | (Err(_), Ok(Err(_))) | (Ok(Err(_)), Err(_)) => Ok(false),
        (Ok(Ok(x)), Ok(Err(e))) => Err(format!("from_str gives Ok({:?}), from_reader fails with {}", x, e)),
        (Ok(Err(e)), Ok(Ok(y))) => Err(format!("from_str fails with {}, from_reader gives Ok({:?})", e, y)),
        (Ok(Ok(x)), Err(p)) => Err(format!("from_str gives Ok({:?}), from_reader panics: {}", x, p)),
        (Err(p), Ok(Ok(y))) => Err(format!("from_str panics ({}), from_reader gives Ok({:?})", p, y)),
    }
}

/// items that are lists themselves (xs:list text inside repeated elements) and tuples of three
#[derive(serde::Deserialize, Debug, PartialEq)]
pub struct SListOfLists {
    #[serde(default = "empty_ll")]
    a: BVec<BVec<String>>,
    #[serde(default = "empty_t")]
    b: BVec<(String, String, String)>,
}
fn empty_ll() -> BVec<BVec<String>> {
    BVec(Vec::new())
}
fn empty_t() -> BVec<(String, String, String)> {
    BVec(Vec::new())
}

pub const C14_TARGETS: [&str; 28] = [
    "SAttr", "SReq", "SLists", "SText", "STextList", "Ch", "SValue", "SValueVec", "SValueTuple", "SValueString", "NStr", "NStruct", "UnitS", "SPrims",
    "UnitOnly", "SEnumFields", "SNestedSeq", "BVec<Ch>", "BVec<String>", "BVec<Option<String>>", "(String,u8)", "Option<SAttr>", "()", "BMap", "String", "SOptHolder", "SOptValue", "SListOfLists",
];

pub fn compare_target(t: usize, doc: &str, script: &Script) -> Result<bool, String> {
    match t {
        0 => compare::<SAttr>(doc, script),
        1 => compare::<SReq>(doc, script),
        2 => compare::<SLists>(doc, script),
        3 => compare::<SText>(doc, script),
        4 => compare::<STextList>(doc, script),
        5 => compare::<Ch>(doc, script),
        6 => compare::<SValue>(doc, script),
        7 => compare::<SValueVec>(doc, script),
        8 => compare::<SValueTuple>(doc, script),
        9 => compare::<SValueString>(doc, script),
        10 => compare::<NStr>(doc, script),
        11 => compare::<NStruct>(doc, script),
        12 => compare::<UnitS>(doc, script),
        13 => compare::<SPrims>(doc, script),
        14 => compare::<UnitOnly>(doc, script),
        15 => compare::<SEnumFields>(doc, script),
        16 => compare::<SNestedSeq>(doc, script),
        17 => compare::<BVec<Ch>>(doc, script),
        18 => compare::<BVec<String>>(doc, script),
        19 => compare::<BVec<Option<String>>>(doc, script),
        20 => compare::<(String, u8)>(doc, script),
        21 => compare::<Option<SAttr>>(doc, script),
        22 => compare::<()>(doc, script),
        23 => compare::<BMap>(doc, script),
        24 => compare::<String>(doc, script),
        25 => compare::<SOptHolder>(doc, script),
        26 => compare::<SOptValue>(doc, script),
        27 => compare::<SListOfLists>(doc, script),
        _ => Err("bad target".into()),
    }
}

pub fn compare_family(ty: &str, doc: &str, script: &Script) -> Result<bool, String> {
    let mut res = Err(format!("unknown type {}", ty));
    macro_rules! go {
        ($($t:ident),*) => { $( if ty == <$t as Fam>::NAME { res = compare::<$t>(doc, script); } )* };
    }
    crate::for_each_type!(go);
    res
}

fn tokens() -> Vec<&'static str> {
    let mut v: Vec<&'static str> = TOKENS.to_vec();
    v.extend(["<![CDATA[a]>b]]>", "<p:a>", "</p:a>", "<p:b q:x=\"2\"/>", "a b  c", "&#60;&#x20;", "<!---->"]);
    v
}

fn schedules(n: usize, all_cuts_upto: usize, max_cuts: usize) -> Vec<Script> {
    let mut v = vec![Script::whole()];
    for p in [1usize, 2, 3, 7] {
        v.push(Script::pieces(p));
    }
    if n >= 2 {
        if n <= all_cuts_upto {
            for mask in 1..(1u64 << (n - 1)) {
                v.push(Script::from_mask(mask, n));
            }
        } else {
            for c1 in 1..n {
                v.push(Script::cuts(&[c1]));
                if max_cuts >= 2 {
                    for c2 in c1 + 1..n {
                        v.push(Script::cuts(&[c1, c2]));
                    }
                }
            }
        }
    }
    v
}

pub fn run(ctx: &Ctx) {
    ctx.set_rule(
        "documents: (a) every sequence of up to N tokens over 30 tokens (the C07 alphabet plus a CDATA section containing `]>`, prefixed \
         element and attribute names, a text with several blanks, character references), bare and wrapped in <r>..</r>, x 25 owned target \
         types; (b) every plain serialization of the C06 quick value set, and every single-token deletion and duplication of it, \
         deserialized as its own type. Schedules of the reader: whole, uniform pieces 1, 2, 3, 7, every cut set for documents up to 10 \
         bytes, every cut set with <=1/2 cuts beyond. Oracle: from_str and from_reader both fail, or both succeed with equal values. \
         evaluations = comparisons (two deserializations each); non-trivial = comparisons where both succeeded; distinct by construction. \
         states = (target, outcome) pairs",
    );
    ctx.assume("UTF-8 documents that do not declare another encoding (as the property states)");
    ctx.assume("a panic on either side counts as failure here (panics are C07's business)");
    let t = ctx.tier;
    let seed = ctx.seed;
    let toks = tokens();
    let k = toks.len() as u64;
    let nt = C14_TARGETS.len();

    let n_full = t.pick(3, 4);
    // (b) family documents and their single-token mutations
    let mut docs: Vec<(String, String)> = Vec::new();
    macro_rules! collect {
        ($($ty:ident),*) => { $( for v in <$ty as Fam>::values(0) { if let Ok(x) = ser(&v, SerCfg::plain()) { docs.push((<$ty as Fam>::NAME.to_string(), x)); } } )* };
    }
    crate::for_each_type!(collect);
    docs.sort();
    docs.dedup();
    let max_cuts = t.pick(1, 2);
    ctx.layer("family_documents", 2, docs.len() as u64, json!({"documents": docs.len(), "mutations": "every single-token deletion and duplication", "max_cuts": max_cuts}), |i, acc| {
        let (ty, doc) = &docs[i as usize];
        let lx = lex(doc.as_bytes());
        let mut variants: Vec<(String, bool)> = vec![(doc.clone(), true)];
        for tk in &lx.toks {
            let mut del = doc.as_bytes()[..tk.span.start].to_vec();
            del.extend_from_slice(&doc.as_bytes()[tk.span.end..]);
            let mut dup = doc.as_bytes()[..tk.span.end].to_vec();
            dup.extend_from_slice(&doc.as_bytes()[tk.span.start..]);
            for v in [del, dup] {
                if let Ok(s) = String::from_utf8(v) {
                    variants.push((s, false));
                }
            }
        }
        for (vdoc, original) in &variants {
            let scheds = if *original { schedules(vdoc.len(), 10, max_cuts) } else { schedules(vdoc.len(), 10, 1) };
            for sc in &scheds {
                acc.evaluations += 1;
                acc.traces += 1;
                acc.transitions += 2;
                match compare_family(ty, vdoc, sc) {
                    Ok(ok) => {
                        if ok {
                            acc.nt_count += 1;
                        }
                        if *original && !ok {
                            acc.count("valid_document_failed_on_both_sides", 1);
                        }
                    }
                    Err(what) => acc.violation((2, i), format!("{:?} as {} with reader schedule {}: {}", vdoc, ty, sc.to_json(), what), json!({"doc": vdoc, "family_type": ty, "script": sc.to_json()})),
                }
            }
        }
    });
    stretch_layer(ctx);
    ns_layer(ctx);
    // the two big layers last: on a saturated machine a time cap then costs their tail, not a whole small layer
    ctx.layer("tokens.all_schedules", 0, count_upto(k, n_full) * 2, json!({"tokens": toks, "max_tokens": n_full, "targets": C14_TARGETS}), |i, acc| {
        let mut d = Vec::new();
        decode_upto(k, n_full, i / 2, &mut d);
        let mut doc = String::new();
        if i % 2 == 1 {
            doc.push_str("<r>");
        }
        for &x in &d {
            doc.push_str(toks[x as usize]);
        }
        if i % 2 == 1 {
            doc.push_str("</r>");
        }
        let scheds = schedules(doc.len(), 10, 1);
        for tt in 0..nt {
            for sc in &scheds {
                acc.evaluations += 1;
                acc.traces += 1;
                acc.transitions += 2;
                match compare_target(tt, &doc, sc) {
                    Ok(ok) => {
                        if ok {
                            acc.nt_count += 1;
                        }
                        acc.state(h64(&(tt, ok)));
                    }
                    Err(what) => acc.violation((0, i), format!("{:?} as {} with reader schedule {}: {}", doc, C14_TARGETS[tt], sc.to_json(), what), json!({"doc": doc, "target": tt, "script": sc.to_json()})),
                }
            }
        }
        acc.sample(seed, i, || json!({"document": doc}));
    });

    let n_deep = n_full + 1;
    let deep_targets = [0usize, 2, 4, 7, 9, 16, 19, 24, 27];
    ctx.layer("tokens.deeper_piece1_and_7", 1, pow(k, n_deep) * 2, json!({"tokens_exactly": n_deep, "targets": deep_targets.iter().map(|&t| C14_TARGETS[t]).collect::<Vec<_>>(), "schedules": ["pieces of 1", "pieces of 7"]}), |i, acc| {
        let mut d = Vec::new();
        let base = count_upto(k, n_deep - 1);
        decode_upto(k, n_deep, base + i / 2, &mut d);
        let mut doc = String::new();
        if i % 2 == 1 {
            doc.push_str("<r>");
        }
        for &x in &d {
            doc.push_str(toks[x as usize]);
        }
        if i % 2 == 1 {
            doc.push_str("</r>");
        }
        for &tt in &deep_targets {
            for sc in [Script::pieces(1), Script::pieces(7)] {
                acc.evaluations += 1;
                acc.traces += 1;
                acc.transitions += 2;
                match compare_target(tt, &doc, &sc) {
                    Ok(ok) => {
                        if ok {
                            acc.nt_count += 1;
                        }
                    }
                    Err(what) => acc.violation((1, i), format!("{:?} as {} with reader schedule {}: {}", doc, C14_TARGETS[tt], sc.to_json(), what), json!({"doc": doc, "target": tt, "script": sc.to_json()})),
                }
            }
        }
    });
}

/// Namespace scopes under skipping: the only place the deserializer resolves names is `xsi:nil`; whether
/// the prefix is bound to the XSI namespace at that point depends on every scope opened and closed by
/// the skips before it (unknown elements that re-bind or un-bind the prefix, with an element or a text
/// as first child, nil elements with content).
const XSI_NS: &str = "http://www.w3.org/2001/XMLSchema-instance";
fn ns_tokens() -> Vec<String> {
    vec![
        "<zz xmlns:xsi=\"bogus\"><y/></zz>".into(),
        "<zz xmlns:xsi=\"bogus\">q</zz>".into(),
        "<zz><y xmlns:xsi=\"bogus\"><w/></y></zz>".into(),
        format!("<zz xmlns:xsi=\"{}\"><y/><y/></zz>", XSI_NS),
        "<a xsi:nil=\"true\"/>".into(),
        "<a xsi:nil=\"true\"><y/>t</a>".into(),
        "<a>t</a>".into(),
        "<b xsi:nil=\"true\">1</b>".into(),
        "<b>1</b>".into(),
        format!("<a xmlns:xsi=\"{}\" xsi:nil=\"1\"><y xmlns:xsi=\"bogus\"/></a>", XSI_NS),
        "<zz xmlns:xsi=\"\"/>".into(),
    ]
}

fn ns_layer(ctx: &Ctx) {
    let toks = ns_tokens();
    let k = toks.len() as u64;
    let n = ctx.tier.pick(3, 4);
    let targets = [0usize, 2, 21, 25];
    ctx.layer("namespace_scopes_under_skips", 4, count_upto(k, n) * 2, json!({"children": toks, "max_children": n, "roots": [format!("<r xmlns:xsi=\"{}\">", XSI_NS), "<r>".to_string()], "targets": targets.iter().map(|&t| C14_TARGETS[t]).collect::<Vec<_>>(), "schedules": ["whole", "pieces of 1", "pieces of 7", "pieces of 64"]}), |i, acc| {
        let mut d = Vec::new();
        decode_upto(k, n, i / 2, &mut d);
        let mut doc = if i % 2 == 0 { format!("<r xmlns:xsi=\"{}\">", XSI_NS) } else { "<r>".to_string() };
        for &x in &d {
            doc.push_str(&toks[x as usize]);
        }
        doc.push_str("</r>");
        for &tt in &targets {
            for sc in [Script::whole(), Script::pieces(1), Script::pieces(7), Script::pieces(64)] {
                acc.evaluations += 1;
                acc.traces += 1;
                acc.transitions += 2;
                match compare_target(tt, &doc, &sc) {
                    Ok(ok) => {
                        if ok {
                            acc.nt_count += 1;
                        }
                        acc.state(h64(&(tt, ok, 4u8)));
                    }
                    Err(what) => acc.violation((4, i), format!("{:?} as {} with reader schedule {}: {}", doc, C14_TARGETS[tt], sc.to_json(), what), json!({"doc": doc, "target": tt, "script": sc.to_json()})),
                }
            }
        }
    });
}

/// Size thresholds (the reader path owns its events and reuses one buffer across look-ahead and
/// skipping): stretched documents under piece sizes around the powers of two and single cuts at
/// the places where the byte pattern changes.
fn stretch_layer(ctx: &Ctx) {
    let t = ctx.tier;
    let st = crate::inputs::Stretch::new(crate::inputs::STRETCH_SERDE, t.pick(8, 40), t.pick(12, 16), t.pick(2, 6));
    let targets = [0usize, 2, 3, 4, 7, 9, 16, 18, 23, 24, 27];
    let pieces: &[usize] = t.pick(&[7usize, 64, 4096][..], &[1usize, 2, 7, 63, 64, 65, 255, 256, 1000, 4096, 8192][..]);
    let mut desc = st.desc.clone();
    desc["targets"] = json!(targets.iter().map(|&t| C14_TARGETS[t]).collect::<Vec<_>>());
    desc["schedules"] = json!(format!("whole; pieces {:?}; single cuts within 1 byte of every pattern change", pieces));
    ctx.layer("stretch", 3, st.total(), desc, |i, acc| {
        let mut input = Vec::new();
        let mut marks = Vec::new();
        st.get(i, &mut input, Some(&mut marks));
        let Ok(doc) = String::from_utf8(input) else { return };
        let n = doc.len();
        let mut scheds = vec![Script::whole()];
        for &p in pieces {
            if n / p <= 20_000 {
                scheds.push(Script::pieces(p));
            }
        }
        let mut cuts: Vec<usize> = Vec::new();
        for &m in &marks {
            for c in m.saturating_sub(1)..=m + 1 {
                if c >= 1 && c < n {
                    cuts.push(c);
                }
            }
        }
        cuts.sort();
        cuts.dedup();
        for c in cuts {
            scheds.push(Script::cuts(&[c]));
        }
        for &tt in &targets {
            for sc in &scheds {
                acc.evaluations += 1;
                acc.traces += 1;
                acc.transitions += 2;
                match compare_target(tt, &doc, sc) {
                    Ok(ok) => {
                        if ok {
                            acc.nt_count += 1;
                        }
                        acc.state(h64(&(tt, ok)));
                    }
                    Err(what) => acc.violation((3, i), format!("{:?} as {} with reader schedule {}: {}", lossy_head(doc.as_bytes()), C14_TARGETS[tt], sc.to_json(), lossy_head(what.as_bytes())), json!({"doc": doc, "target": tt, "script": sc.to_json()})),
                }
            }
        }
    });
}

pub fn replay(case: &Value) -> Result<(), String> {
    let doc = case["doc"].as_str().ok_or("no doc")?;
    let script = Script::from_json(&case["script"]);
    println!("document {:?} schedule {}", lossy_head(doc.as_bytes()), script.to_json());
    if let Some(ty) = case.get("family_type").and_then(|t| t.as_str()) {
        compare_family(ty, doc, &script).map(|ok| println!("both {}", if ok { "Ok and equal" } else { "failed" }))
    } else {
        let t = case["target"].as_u64().unwrap() as usize;
        println!("target {}", C14_TARGETS[t]);
        compare_target(t, doc, &script).map(|ok| println!("both {}", if ok { "Ok and equal" } else { "failed" }))
    }
}
