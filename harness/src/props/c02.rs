//! C02 — Events are independent of the source type and of how input is chunked.
//!
//! Schedules (= how the environment cuts the input, where it answers `Pending`) are enumerated
//! exhaustively up to a deviation bound; every run of the buffered / async reader is compared,
//! call by call, with the run of the borrowing reader over the same bytes.

use crate::common::*;
use crate::env::*;
use crate::inputs::*;
use crate::models::lex::{lex, strip_bom, Kind};
use crate::trace::*;
use quick_xml::parser::{ElementParser, Parser, PiParser};
use serde_json::{json, Value};

#[derive(Clone, Copy, PartialEq, Eq, Debug)]
pub enum Src {
    Buffered,
    Async,
}

fn needs_long_first_piece(input: &[u8]) -> bool {
    matches!(input.first(), Some(0xEF) | Some(0xFE) | Some(0xFF) | Some(0x00))
        || input.starts_with(b"<\0")
        || input.starts_with(b"<?x")
}

fn first_piece_len(input: &[u8], s: &Script) -> usize {
    let mut e = input.len();
    if let Some(&c) = s.cuts.first() {
        e = e.min(c);
    }
    if s.piece > 0 {
        e = e.min(s.piece);
    }
    e
}

pub fn run_src(src: Src, input: &[u8], cfg: u8, script: &Script, out: &mut Vec<Obs>) -> RunInfo {
    let info = match src {
        Src::Buffered => run_buffered(input, cfg, script, 2, false, out),
        Src::Async => run_async(input, cfg, script, 2, false, out),
    };
    mask_after_fatal(out);
    info
}

/// The property fixes the byte position after every *event*; where the cursor rests after a fatal
/// syntax error (and for the Eofs that follow it) is not stated, so it is not compared. The error
/// itself and its error_position are.
pub fn mask_after_fatal(t: &mut [Obs]) {
    let mut fatal = false;
    for o in t.iter_mut() {
        if matches!(&o.ev, Ev::Err(e) if e.is_syntax()) {
            fatal = true;
        }
        if fatal {
            o.pos = 0;
        }
    }
}

fn describe(reference: &[Obs], got: &[Obs], info: &RunInfo) -> String {
    if let Some(m) = &info.misuse {
        return format!("reader misused the BufRead contract: {}", m);
    }
    if info.stuck {
        return "async read did not complete within the polling horizon".into();
    }
    let i = (0..reference.len().max(got.len()))
        .find(|&i| reference.get(i) != got.get(i))
        .unwrap_or(0);
    let sh = |o: Option<&Obs>| {
        o.map_or("<nothing>".to_string(), |o| format!("{} pos={} err_pos={}", o.ev.show(), o.pos, o.err_pos))
    };
    format!("call #{}: slice reader {}, this source {}", i, sh(reference.get(i)), sh(got.get(i)))
}

/// A cut is non-trivial if it falls strictly inside a markup construct.
fn cut_inside_markup(spans: &[(usize, usize)], script: &Script, len: usize) -> bool {
    let inside = |c: usize| spans.iter().any(|&(a, b)| a < c && c < b);
    if script.cuts.iter().any(|&c| inside(c)) {
        return true;
    }
    if script.piece > 0 {
        let mut c = script.piece;
        while c < len {
            if inside(c) {
                return true;
            }
            c += script.piece;
        }
    }
    false
}

struct Checker<'a> {
    seed: u64,
    ln: u32,
    cfgs: &'a [u8],
    pend_bound: usize,
}

impl<'a> Checker<'a> {
    /// Runs every (cfg, source) for one (input, script); with `pend` also every placement of up to
    /// `pend_bound` Pending answers for the async source.
    fn one(&self, acc: &mut Acc, idx: u64, input: &[u8], refs: &[Vec<Obs>], spans: &[(usize, usize)], script: &Script, pend: bool, bom_off: usize) {
        if needs_long_first_piece(input) && first_piece_len(input, script) < 4.min(input.len()) {
            acc.count("schedules_skipped_bom_exception", 1);
            return;
        }
        let _ = bom_off;
        let nontrivial = cut_inside_markup(spans, script, input.len());
        let mut got = Vec::new();
        for (ci, &cfg) in self.cfgs.iter().enumerate() {
            for src in [Src::Buffered, Src::Async] {
                let info = run_src(src, input, cfg, script, &mut got);
                acc.evaluations += 1;
                acc.traces += 1;
                acc.transitions += got.len() as u64;
                if ci == 0 && src == Src::Buffered {
                    if nontrivial {
                        acc.nt_count += 1;
                    }
                    let kinds: Vec<u8> = got.iter().map(|o| o.ev.kind()).collect();
                    acc.state(h64(&(kinds, info.fill_calls.min(12), nontrivial)));
                }
                if got != refs[ci] || info.misuse.is_some() || info.stuck {
                    acc.violation(
                        (self.ln, idx),
                        format!(
                            "input {:?} cfg [{}] {:?} source, schedule {}: {}",
                            lossy_head(input), cfg_show(cfg), src, script.to_json(), describe(&refs[ci], &got, &info)
                        ),
                        json!({"input": bytes_json(input), "cfg": cfg, "source": format!("{:?}", src), "script": script.to_json()}),
                    );
                }
                // determinism: the harness owns all nondeterminism — replay must be identical
                if h64(&(self.seed, idx, ci)) % 1000 == 0 {
                    let mut again = Vec::new();
                    run_src(src, input, cfg, script, &mut again);
                    acc.count("replayed_twice", 1);
                    if again != got {
                        acc.violation((self.ln, idx), "MACHINERY: replaying a schedule gave a different trace".into(), json!({"input": bytes_json(input)}));
                    }
                }
                if pend && src == Src::Async && self.pend_bound > 0 {
                    self.pendings(acc, idx, input, cfg, &refs[ci], script, info.fill_calls);
                }
            }
        }
    }

    /// Deviation-bounded exploration of `Poll::Pending` placements.
    fn pendings(&self, acc: &mut Acc, idx: u64, input: &[u8], cfg: u8, reference: &[Obs], base: &Script, calls: usize) {
        let mut got = Vec::new();
        let mut stack: Vec<(Script, usize, usize)> = vec![(base.clone(), 0, calls)];
        while let Some((script, from, ncalls)) = stack.pop() {
            if script.faults.len() >= self.pend_bound {
                continue;
            }
            for i in from..ncalls {
                let mut s2 = script.clone();
                s2.faults.push((i, Fault::Pending));
                let info = run_async(input, cfg, &s2, 2, false, &mut got);
                mask_after_fatal(&mut got);
                acc.evaluations += 1;
                acc.traces += 1;
                acc.transitions += got.len() as u64;
                acc.count("pending_schedules", 1);
                if info.faults_fired != s2.faults.len() {
                    acc.violation((self.ln, idx), "MACHINERY: scripted Pending did not fire".into(), json!({"input": bytes_json(input), "script": s2.to_json()}));
                }
                if &got[..] != reference || info.stuck {
                    acc.violation(
                        (self.ln, idx),
                        format!(
                            "input {:?} cfg [{}] async source, schedule {}: {}",
                            lossy_head(input), cfg_show(cfg), s2.to_json(), describe(reference, &got, &info)
                        ),
                        json!({"input": bytes_json(input), "cfg": cfg, "source": "Async", "script": s2.to_json()}),
                    );
                }
                stack.push((s2, i + 1, info.fill_calls));
            }
        }
    }
}

fn markup_spans(input: &[u8]) -> (Vec<(usize, usize)>, usize) {
    let s = strip_bom(input);
    let off = input.len() - s.len();
    let l = lex(s);
    let mut v: Vec<(usize, usize)> = l
        .toks
        .iter()
        .filter(|t| t.kind != Kind::Text)
        .map(|t| (t.span.start + off, t.span.end + off))
        .collect();
    if let Some((_, at)) = l.fatal {
        v.push((at + off, input.len()));
    }
    (v, off)
}

pub struct Bounds {
    /// inputs up to this length get every cut set
    pub all_cuts_len: usize,
    /// longer inputs get every cut set with at most this many cuts
    pub max_cuts: usize,
    pub pend_bound: usize,
    /// inputs longer than this get at most one Pending (the second deviation level is the costly one)
    pub pend2_len: usize,
}

fn sweep(ctx: &Ctx, ln: u32, sp: &Space, cfgs: &[u8], b: &Bounds, max_total_len: usize) {
    let seed = ctx.seed;
    let mut desc = sp.desc.clone();
    desc["schedules"] = json!(format!(
        "all cut sets for len<={}; <={} cuts beyond; piece sizes 1,2,3,7; async: + every placement of <={} Pending (inputs longer than {} bytes: <=1) on piece sizes 1-3 and <=1-cut schedules",
        b.all_cuts_len, b.max_cuts, b.pend_bound, b.pend2_len
    ));
    let chk = Checker { seed, ln, cfgs, pend_bound: b.pend_bound };
    let chk1 = Checker { seed, ln, cfgs, pend_bound: b.pend_bound.min(1) };
    ctx.layer(&sp.name, ln, sp.total, desc, |i, acc| {
        let mut input = Vec::new();
        sp.get(i, &mut input);
        if input.len() > max_total_len {
            acc.count("inputs_skipped_too_long", 1);
            return;
        }
        let refs: Vec<Vec<Obs>> = cfgs
            .iter()
            .map(|&c| {
                let mut v = Vec::new();
                run_slice(&input, c, 2, &mut v);
                mask_after_fatal(&mut v);
                v
            })
            .collect();
        let (spans, off) = markup_spans(&input);
        let n = input.len();
        let chk = if n > b.pend2_len { &chk1 } else { &chk };
        // uniform pieces
        for p in [1usize, 2, 3, 7] {
            chk.one(acc, i, &input, &refs, &spans, &Script::pieces(p), p <= 3, off);
        }
        // the consumer's buffer: never cleared, or holding bytes of an earlier use that look like half a
        // terminator ("-", "--", "]", "]]", "?", "<!--", "<![CDATA[", a quote, "<") — the scanners must
        // only look at what they appended themselves
        for policy in 1..=(1 + USER_BUF_JUNK.len() as u8) {
            for p in [1usize, 2, 0] {
                let mut sc = if p == 0 { Script::whole() } else { Script::pieces(p) };
                sc.user_buf = policy;
                chk.one(acc, i, &input, &refs, &spans, &sc, false, off);
            }
        }
        if n <= 1 {
            return;
        }
        if n <= b.all_cuts_len {
            for mask in 0..(1u64 << (n - 1)) {
                let s = Script::from_mask(mask, n);
                let pend = s.cuts.len() <= 1;
                chk.one(acc, i, &input, &refs, &spans, &s, pend, off);
            }
        } else {
            chk.one(acc, i, &input, &refs, &spans, &Script::whole(), true, off);
            for c1 in 1..n {
                chk.one(acc, i, &input, &refs, &spans, &Script::cuts(&[c1]), true, off);
                if b.max_cuts >= 2 {
                    for c2 in c1 + 1..n {
                        chk.one(acc, i, &input, &refs, &spans, &Script::cuts(&[c1, c2]), false, off);
                        if b.max_cuts >= 3 {
                            for c3 in c2 + 1..n {
                                chk.one(acc, i, &input, &refs, &spans, &Script::cuts(&[c1, c2, c3]), false, off);
                            }
                        }
                    }
                }
            }
        }
        acc.sample(seed, i ^ ((ln as u64) << 40), || json!({"layer": sp.name, "input": lossy(&input), "example_schedule": {"cuts": [n / 2]}}));
    });
}

/// Layer S: stretched inputs (size thresholds) under uniform piece sizes around powers of two and
/// every single cut (all positions for inputs up to `all_cuts` bytes; beyond that every position
/// within 3 bytes of a place where the byte pattern changes, of a power of two, and of the ends).
fn stretch_sweep(ctx: &Ctx, ln: u32, st: &Stretch, cfgs: &[u8], all_cuts: usize, pieces: &[usize]) {
    let seed = ctx.seed;
    let mut desc = st.desc.clone();
    desc["schedules"] = json!(format!(
        "uniform pieces {:?}; every single cut for len<={}, beyond: every cut within 3 bytes of a pattern change, a power of two or an end; buffered + async, <=1 Pending on the uniform schedules with <= 40 refills",
        pieces, all_cuts
    ));
    let chk = Checker { seed, ln, cfgs, pend_bound: 1 };
    ctx.layer("S.stretch", ln, st.total(), desc, |i, acc| {
        let mut input = Vec::new();
        let mut marks = Vec::new();
        st.get(i, &mut input, Some(&mut marks));
        let refs: Vec<Vec<Obs>> = cfgs
            .iter()
            .map(|&c| {
                let mut v = Vec::new();
                run_slice(&input, c, 2, &mut v);
                mask_after_fatal(&mut v);
                v
            })
            .collect();
        let (spans, off) = markup_spans(&input);
        let n = input.len();
        for &p in pieces {
            if n / p > 20_000 {
                continue;
            }
            chk.one(acc, i, &input, &refs, &spans, &Script::pieces(p), n / p <= 40, off);
            if p == 7 || p == 64 {
                for policy in [1u8, 3, 5, 6] {
                    let mut sc = Script::pieces(p);
                    sc.user_buf = policy;
                    chk.one(acc, i, &input, &refs, &spans, &sc, false, off);
                }
            }
        }
        if n <= 1 {
            return;
        }
        let mut cuts: Vec<usize> = Vec::new();
        if n <= all_cuts {
            cuts.extend(1..n);
        } else {
            let mut near = |c: usize| {
                for d in c.saturating_sub(3)..=c + 3 {
                    if d >= 1 && d < n {
                        cuts.push(d);
                    }
                }
            };
            near(0);
            near(n);
            for &m in &marks {
                near(m);
            }
            let mut p2 = 8;
            while p2 < n {
                near(p2);
                p2 *= 2;
            }
            cuts.sort();
            cuts.dedup();
        }
        for c in cuts {
            chk.one(acc, i, &input, &refs, &spans, &Script::cuts(&[c]), false, off);
        }
        acc.sample(seed, i ^ ((ln as u64) << 40), || json!({"layer": "S.stretch", "input_len": n, "input_head": lossy(&input[..n.min(60)])}));
    });
}

/// Scanner carry state driven directly: feeding a string in up to three pieces must find the
/// same end index as feeding it whole.
fn parser_layer(ctx: &Ctx, ln: u32, tier: Tier) {
    let alpha_el: &'static [u8] = b"\"'>/ =b";
    let alpha_pi: &'static [u8] = b"?>x ";
    let max = tier.pick(6, 7);
    for (name, alpha, is_pi) in [("P.element_parser", alpha_el, false), ("P.pi_parser", alpha_pi, true)] {
        let sp = raw(name, alpha, max);
        ctx.layer(name, ln, sp.total, json!({"alphabet": lossy(alpha), "max_len": max, "splits": "every split into <=3 pieces"}), |i, acc| {
            let mut s = Vec::new();
            sp.get(i, &mut s);
            let whole = if is_pi { PiParser(false).feed(&s) } else { ElementParser::Outside.feed(&s) };
            let n = s.len();
            for c1 in 0..=n {
                for c2 in c1..=n {
                    let pieces = [&s[..c1], &s[c1..c2], &s[c2..]];
                    let mut found = None;
                    let mut base = 0;
                    if is_pi {
                        let mut p = PiParser(false);
                        for pc in pieces {
                            if pc.is_empty() {
                                continue; // a reader never feeds an empty piece (empty fill_buf = EOF)
                            }
                            if let Some(k) = p.feed(pc) {
                                found = Some(base + k);
                                break;
                            }
                            base += pc.len();
                        }
                    } else {
                        let mut p = ElementParser::Outside;
                        for pc in pieces {
                            if pc.is_empty() {
                                continue;
                            }
                            if let Some(k) = p.feed(pc) {
                                found = Some(base + k);
                                break;
                            }
                            base += pc.len();
                        }
                    }
                    acc.evaluations += 1;
                    acc.transitions += 3;
                    acc.traces += 1;
                    if found != whole {
                        acc.violation(
                            (ln, i),
                            format!("{}: feed({:?}) whole = {:?}, split at {},{} = {:?}", name, lossy(&s), whole, c1, c2, found),
                            json!({"parser": name, "input": bytes_json(&s), "cuts": [c1, c2]}),
                        );
                    }
                }
            }
            if whole.is_some() {
                acc.state(h64(&(is_pi, whole, n)));
            }
        });
    }
}

/// The namespace-resolving reader over the three source kinds: resolved events, the in-scope prefix
/// listing and both positions after every call must not depend on the source or the chunking.
fn ns_layer(ctx: &Ctx, ln: u32, tier: Tier) {
    use quick_xml::name::ResolveResult;
    use quick_xml::reader::NsReader;
    const ATOMS: &[&[u8]] = &[b"<a", b"<p:b", b" xmlns=\"u\"", b" xmlns:p=\"v\"", b" xmlns:p=\"\"", b" p:x=\"1\"", b">", b"/>", b"</a>", b"</p:b>", b"t"];
    let max = tier.pick(5, 6);
    let sp = atoms("N.ns_reader", ATOMS, max);
    type Row = (String, String, Vec<(Vec<u8>, Vec<u8>)>, u64, u64);
    fn own(res: &quick_xml::Result<(ResolveResult, quick_xml::events::Event)>) -> (Ev, String) {
        match res {
            Ok((rr, e)) => (Ev::from_event(e), format!("{:?}", rr)),
            Err(e) => (Ev::Err(E::from_error(e)), String::new()),
        }
    }
    fn row<R>(r: &NsReader<R>, owned: (Ev, String)) -> (Row, bool) {
        let (ev, rr) = owned;
        let stop = ev == Ev::Eof;
        let prefixes = r.prefixes().map(|(p, n)| (format!("{:?}", p).into_bytes(), n.0.to_vec())).collect();
        ((ev.show(), rr, prefixes, r.buffer_position(), r.error_position()), stop)
    }
    ctx.layer("N.ns_reader", ln, sp.total, json!({"atoms": ATOMS.iter().map(|a| lossy(a)).collect::<Vec<_>>(), "max_len": max, "sources": ["buffered 1", "buffered 2", "buffered whole", "async 1"]}), |i, acc| {
        let mut input = Vec::new();
        sp.get(i, &mut input);
        let cap = 2 * input.len() + 8;
        let reference: Result<Vec<Row>, String> = guarded_mut(|| {
            let mut r = NsReader::from_reader(&input[..]);
            r.config_mut().allow_unmatched_ends = true;
            r.config_mut().check_end_names = false;
            let mut t = Vec::new();
            for _ in 0..cap {
                let owned = own(&r.read_resolved_event());
                let (rw, stop) = row(&r, owned);
                t.push(rw);
                if stop {
                    break;
                }
            }
            t
        });
        let Ok(reference) = reference else { return }; // totality is C03's business
        for (name, script, is_async) in [("buffered 1", Script::pieces(1), false), ("buffered 2", Script::pieces(2), false), ("buffered whole", Script::whole(), false), ("async 1", Script::pieces(1), true)] {
            let got: Result<Vec<Row>, String> = guarded_mut(|| {
                let mut r = NsReader::from_reader(Source::new(&input, &script));
                r.config_mut().allow_unmatched_ends = true;
                r.config_mut().check_end_names = false;
                let mut buf = Vec::new();
                let mut t = Vec::new();
                for _ in 0..cap {
                    buf.clear();
                    let owned = if is_async {
                        match block_on(r.read_resolved_event_into_async(&mut buf), input.len() + 16) {
                            Some(x) => own(&x),
                            None => break,
                        }
                    } else {
                        own(&r.read_resolved_event_into(&mut buf))
                    };
                    let (rw, stop) = row(&r, owned);
                    t.push(rw);
                    if stop {
                        break;
                    }
                }
                t
            });
            acc.evaluations += 1;
            acc.traces += 1;
            acc.transitions += reference.len() as u64;
            match got {
                Ok(t) if t == reference => {
                    if t.len() > 2 {
                        acc.nt_count += 1;
                    }
                }
                other => {
                    let k = other.as_ref().ok().and_then(|t| (0..t.len().max(reference.len())).find(|&k| t.get(k) != reference.get(k)));
                    acc.violation(
                        (ln, i),
                        format!("NsReader over {:?}, {}: call #{:?} gives {:?}, over the slice {:?}", lossy(&input), name, k, k.and_then(|k| other.as_ref().ok().and_then(|t| t.get(k).cloned())), k.and_then(|k| reference.get(k).cloned())),
                        json!({"input": bytes_json(&input), "kind": "stream", "source": name}),
                    )
                }
            }
        }
    });
}

/// Raw reads through `Reader::stream()` between events: the bytes read and every position reported
/// afterwards must not depend on the source kind or the chunking.
fn stream_layer(ctx: &Ctx, ln: u32, tier: Tier) {
    use std::io::BufRead;
    use tokio::io::AsyncReadExt;
    let max = tier.pick(3, 4);
    let sp = raw("S.binary_stream", SIGMA_M, max);
    ctx.layer("S.binary_stream", ln, sp.total, json!({"document": "<a>{raw}<b/>t</a>", "raw": "every string over the markup alphabet", "max_len": max, "accessors": ["read_exact", "fill_buf+consume", "async read_exact"], "pieces": [1, 2, 3, 7]}), |i, acc| {
        let mut raw_bytes = Vec::new();
        sp.get(i, &mut raw_bytes);
        let k = raw_bytes.len();
        let mut doc = b"<a>".to_vec();
        doc.extend_from_slice(&raw_bytes);
        doc.extend_from_slice(b"<b/>t</a>");
        // reference: the borrowing reader
        let reference = guarded_mut(|| {
            let mut r = quick_xml::Reader::from_reader(&doc[..]);
            let mut t: Vec<(String, u64)> = Vec::new();
            t.push((Ev::from_result(&r.read_event()).show(), r.buffer_position()));
            let mut bin = vec![0u8; k];
            let ok = std::io::Read::read_exact(&mut r.stream(), &mut bin).is_ok();
            t.push((format!("raw {:?} {}", lossy(&bin), ok), r.buffer_position()));
            for _ in 0..6 {
                let e = Ev::from_result(&r.read_event());
                let eof = e == Ev::Eof;
                t.push((e.show(), r.buffer_position()));
                if eof {
                    break;
                }
            }
            t
        });
        let Ok(reference) = reference else {
            acc.violation((ln, i), format!("document {:?}: the borrowing reader panicked around stream()", lossy(&doc)), json!({"input": bytes_json(&doc)}));
            return;
        };
        for piece in [1usize, 2, 3, 7] {
            for mode in 0..3 {
                let script = Script::pieces(piece);
                let got = guarded_mut(|| {
                    let mut r = quick_xml::Reader::from_reader(Source::new(&doc, &script));
                    let mut buf = Vec::new();
                    let mut t: Vec<(String, u64)> = Vec::new();
                    let horizon = doc.len() + 16;
                    let first = if mode == 2 { block_on(r.read_event_into_async(&mut buf), horizon).map(|x| Ev::from_result(&x)) } else { Some(Ev::from_result(&r.read_event_into(&mut buf))) };
                    t.push((first.map_or("STUCK".into(), |e| e.show()), r.buffer_position()));
                    let mut bin = vec![0u8; k];
                    let ok = match mode {
                        0 => std::io::Read::read_exact(&mut r.stream(), &mut bin).is_ok(),
                        1 => {
                            // BufRead access: take what is offered, piece by piece
                            let mut filled = 0;
                            let mut ok = true;
                            while filled < k {
                                let mut st = r.stream();
                                let avail = match st.fill_buf() {
                                    Ok(a) if !a.is_empty() => a,
                                    _ => {
                                        ok = false;
                                        break;
                                    }
                                };
                                let n = avail.len().min(k - filled);
                                bin[filled..filled + n].copy_from_slice(&avail[..n]);
                                st.consume(n);
                                filled += n;
                            }
                            ok
                        }
                        _ => {
                            let mut st = r.stream();
                            let fut = AsyncReadExt::read_exact(&mut st, &mut bin);
                            matches!(block_on(fut, 4 * horizon), Some(Ok(_)))
                        }
                    };
                    t.push((format!("raw {:?} {}", lossy(&bin), ok), r.buffer_position()));
                    for _ in 0..6 {
                        buf.clear();
                        let e = if mode == 2 { block_on(r.read_event_into_async(&mut buf), horizon).map(|x| Ev::from_result(&x)) } else { Some(Ev::from_result(&r.read_event_into(&mut buf))) };
                        let Some(e) = e else {
                            t.push(("STUCK".into(), 0));
                            break;
                        };
                        let eof = e == Ev::Eof;
                        t.push((e.show(), r.buffer_position()));
                        if eof {
                            break;
                        }
                    }
                    t
                });
                acc.evaluations += 1;
                acc.traces += 1;
                acc.transitions += reference.len() as u64;
                match got {
                    Ok(t) if t == reference => acc.nt_count += 1,
                    other => acc.violation(
                        (ln, i),
                        format!("document {:?}, pieces of {}, {}: Start, stream() raw read of {} bytes, then events: {:?}; the borrowing reader gives {:?}", lossy(&doc), piece, ["read_exact", "fill_buf+consume", "async read_exact"][mode], k, other, reference),
                        json!({"input": bytes_json(&doc), "kind": "stream", "piece": piece, "mode": mode}),
                    ),
                }
            }
        }
    });
}

pub fn run(ctx: &Ctx) {
    ctx.set_rule(
        "inputs: layer A (all strings over the markup alphabet), C (atom sequences), D (construct contexts, with BOM \
         variants), E (sample documents). schedules: every way to cut short inputs into consecutive non-empty pieces, \
         every <=k-cut set for longer ones, uniform piece sizes; also NsReader (resolved events + prefix listing) over an 11-atom namespace alphabet, and raw reads through Reader::stream() between events (read_exact, fill_buf+consume, async read_exact); sources: buffered (read_event_into over a scripted BufRead) \
         and async (read_event_into_async over a scripted AsyncBufRead polled by hand), the latter also with every \
         placement of up to k Poll::Pending answers. Oracle: the trace of the borrowing reader (events, errors, \
         buffer_position after every event and recoverable error, error_position after every call, two extra calls after Eof; the resting position after a fatal syntax error is not compared), under four configurations (neutral, default, all switches on, neutral + text trimming). The consumer's buffer is cleared before every call, or never cleared, or reset to bytes that look like half a terminator (10 policies on pieces of 1, 2 and whole). non-trivial = some cut falls strictly inside a markup construct (spans from the \
         reference lexer); counted per (input, schedule), distinct by construction. states = distinct (event-kind \
         sequence, refill count) signatures",
    );
    ctx.assume("inputs starting with a BOM / UTF-16 signature / `<?x` keep a first piece of >= 4 bytes (the exception stated in the property)");
    ctx.assume("empty pieces are never produced (an empty fill_buf means EOF by contract)");
    let t = ctx.tier;
    let full = cfg!(feature = "full");
    // neutral, default, everything on, and text trimming alone (skip_whitespace lives in the source)
    let cfgs = [NEUTRAL, DEFAULT, 127u8, NEUTRAL | TRIM_START | TRIM_END];
    let b = Bounds { all_cuts_len: t.pick(8, 11), max_cuts: t.pick(2, 3), pend_bound: t.pick(1, 2), pend2_len: 5 };
    // the long-input layers of the thorough tier: every cut set up to 9 bytes, <=2 cuts beyond
    let b_long = Bounds { all_cuts_len: t.pick(8, 9), max_cuts: 2, pend_bound: 1, pend2_len: 0 };
    // one level deeper with the light schedule set (uniform pieces, every single cut, <=1 Pending)
    let b_light = Bounds { all_cuts_len: 0, max_cuts: 1, pend_bound: 1, pend2_len: 0 };
    if !full {
        // Init step differs between builds (remove_utf8_bom vs detect_encoding)
        sweep(ctx, 0, &raw("A.raw(min)", SIGMA_M, t.pick(4, 5)), &cfgs, &b, 64);
        sweep(ctx, 1, &context("Init.bom", &[b"", b"\xEF\xBB", b"\xEF\xBB\xBF", b"\xEF\xBB\xBF\xEF\xBB\xBF"], b"<?xml >a", t.pick(4, 5), &[b""], false), &cfgs, &b, 64);
        return;
    }
    sweep(ctx, 0, &raw("A.raw", SIGMA_M, t.pick(5, 6)), &cfgs, &b, 64);
    sweep(ctx, 1, &atoms("C.atoms", ATOMS_C, 4), &cfgs, &b, t.pick(18, 24));
    let mut ln = 2;
    if t.pick(false, true) {
        sweep(ctx, ln, &atoms("C.atoms5.light", ATOMS_C, 5), &cfgs, &b_light, 30);
        ln += 1;
    }
    for sp in contexts(|m| t.pick(m.min(4), m.min(6)), true) {
        sweep(ctx, ln, &sp, &cfgs, &b_long, 24);
        ln += 1;
    }
    sweep(ctx, ln, &context("Init.bom", &[b"", b"\xEF\xBB", b"\xEF\xBB\xBF", b"\xEF\xBB\xBF\xEF\xBB\xBF", b"\xFF\xFE", b"\xFE\xFF"], b"<?xml >a", t.pick(4, 5), &[b""], false), &cfgs, &b, 64);
    ln += 1;
    // which bytes count as white space must not depend on the source (skip_whitespace exists once per source)
    {
        let sp = ws_class();
        let cfg = 127u8;
        let chk = Checker { seed: ctx.seed, ln, cfgs: &[cfg], pend_bound: 0 };
        ctx.layer(&sp.name, ln, sp.total, sp.desc.clone(), |i, acc| {
            let mut input = Vec::new();
            sp.get(i, &mut input);
            let mut r = Vec::new();
            run_slice(&input, cfg, 2, &mut r);
            mask_after_fatal(&mut r);
            let refs = vec![r];
            for sc in [Script::pieces(1), Script::whole()] {
                chk.one(acc, i, &input, &refs, &[], &sc, false, 0);
            }
        });
    }
    ln += 1;
    sweep(ctx, ln, &mid_bom(t.pick(2, 3)), &cfgs, &b, 64);
    ln += 1;
    stretch_sweep(
        ctx,
        ln,
        &Stretch::new(STRETCH_READER, t.pick(8, 40), t.pick(8, 13), t.pick(3, 6)),
        t.pick(&[DEFAULT, NEUTRAL | TRIM_START | TRIM_END][..], &cfgs[..]),
        t.pick(48, 600),
        t.pick(&[1usize, 7, 64, 256][..], &[1usize, 2, 3, 7, 16, 63, 64, 65, 255, 256, 1000, 4096, 8192][..]),
    );
    ln += 1;
    parser_layer(ctx, ln, t);
    ln += 1;
    stream_layer(ctx, ln, t);
    ln += 1;
    ns_layer(ctx, ln, t);
    ln += 1;

    // E: corpus with uniform piece sizes and every single cut in a window around each markup start
    let docs = corpus();
    let sizes = [1usize, 2, 3, 7, 61, 4096];
    let total = docs.len() as u64 * sizes.len() as u64 * 2;
    ctx.layer("E.corpus", ln, total, json!({"files": docs.len(), "piece_sizes": sizes, "sources": 2}), |i, acc| {
        let d = &docs[(i / 12) as usize];
        let p = sizes[((i / 2) % 6) as usize];
        let src = if i % 2 == 0 { Src::Buffered } else { Src::Async };
        if needs_long_first_piece(&d.1) && p < 4 {
            acc.count("schedules_skipped_bom_exception", 1);
            return;
        }
        for cfg in cfgs {
            let mut r = Vec::new();
            run_slice(&d.1, cfg, 2, &mut r);
            mask_after_fatal(&mut r);
            let mut got = Vec::new();
            let script = Script::pieces(p);
            let info = run_src(src, &d.1, cfg, &script, &mut got);
            acc.evaluations += 1;
            acc.traces += 1;
            acc.transitions += got.len() as u64;
            acc.nontrivial(h64(&(&d.0, p)));
            if got != r || info.misuse.is_some() || info.stuck {
                acc.violation(
                    (ln, i),
                    format!("corpus file {} cfg [{}] {:?} piece size {}: {}", d.0, cfg_show(cfg), src, p, describe(&r, &got, &info)),
                    json!({"file": d.0, "cfg": cfg, "source": format!("{:?}", src), "script": script.to_json()}),
                );
            }
        }
    });
}

pub fn replay(case: &Value) -> Result<(), String> {
    if case.get("kind").and_then(|k| k.as_str()) == Some("stream") {
        return Err("re-run the S.binary_stream layer (./check C02 quick) to reproduce a stream() case".into());
    }
    if let Some(p) = case.get("parser").and_then(|p| p.as_str()) {
        let s = bytes_from_json(&case["input"]);
        println!("parser {} input {:?}", p, lossy(&s));
        let whole = if p.contains("pi") { PiParser(false).feed(&s) } else { ElementParser::Outside.feed(&s) };
        println!("whole: {:?}", whole);
        return Err("see cuts in the case; re-run the P.* layer".into());
    }
    let input = if let Some(f) = case.get("file").and_then(|f| f.as_str()) {
        std::fs::read(format!("/repo/tests/documents/{}", f)).map_err(|e| e.to_string())?
    } else {
        bytes_from_json(&case["input"])
    };
    let cfg = case["cfg"].as_u64().unwrap_or(NEUTRAL as u64) as u8;
    let script = Script::from_json(&case["script"]);
    let src = if case["source"].as_str() == Some("Async") { Src::Async } else { Src::Buffered };
    let mut r = Vec::new();
    run_slice(&input, cfg, 2, &mut r);
    mask_after_fatal(&mut r);
    let mut got = Vec::new();
    let info = run_src(src, &input, cfg, &script, &mut got);
    println!("input: {:?}\nconfig: {}\nsource: {:?}\nschedule: {}", lossy_head(&input), cfg_show(cfg), src, script.to_json());
    println!("slice reader:");
    for o in show_trace(&r) {
        println!("  {}", o.as_str().unwrap());
    }
    println!("this source ({} refills):", info.fill_calls);
    for o in show_trace(&got) {
        println!("  {}", o.as_str().unwrap());
    }
    if got != r || info.misuse.is_some() || info.stuck {
        Err(describe(&r, &got, &info))
    } else {
        Ok(())
    }
}
