//! The serde type family shared by the serde properties (C06, C13, C14, C15, C19, C20): about
//! twenty `derive(Serialize, Deserialize)` types covering every row of the documented mapping,
//! each with an exhaustive enumerator of small-domain values.

use serde::{Deserialize, Serialize};
use std::collections::BTreeMap;
use std::fmt::Debug;

/// Which known defect of the unchanged tree a value is *expected* to hit (shape of the value only;
/// the check additionally verifies the observed failure mode before it accepts the finding).
#[derive(Clone, Copy, PartialEq, Eq, Debug)]
pub enum Shape {
    /// empty string in a text-content position without `#[serde(default)]`
    F5,
    /// blank inside an item of a `$text` list
    F6,
}

pub trait Fam: Serialize + for<'de> Deserialize<'de> + PartialEq + Debug + Clone + Send + Sync + 'static {
    const NAME: &'static str;
    /// true: the type has no `$value` catch-all and no deny_unknown_fields => unknown children are ignored
    const IGNORES_UNKNOWN_CHILDREN: bool = true;
    /// element-only content (C15: blanks may be added between children)
    const ELEMENT_ONLY: bool = false;
    fn values(level: usize) -> Vec<Self>;
    fn shape(&self) -> Option<Shape> {
        None
    }
    /// Values that carry the string `s` in each payload position of this type where `s` is inside
    /// the documented round-trip domain of that position.
    fn payload(s: &str) -> Vec<Self> {
        Self::payload2(s, true)
    }
    /// `strict == false`: also outside the round-trip domain (leading/trailing blanks, empty list
    /// items) — used by C13, whose oracle is well-formedness, not equality.
    fn payload2(_s: &str, _strict: bool) -> Vec<Self> {
        Vec::new()
    }
    /// F6: the value the deserializer produces when the blanks inside the items of a `$text` list split them
    fn with_items_split_at_blanks(&self) -> Option<Self> {
        None
    }
    /// F5 in a list position: the value the deserializer produces when empty text items are written as
    /// nothing (None: the type has no such position)
    fn without_empty_text_items(&self) -> Option<Self> {
        None
    }
    /// Hand-written documents that present the same value with the documented `xsi:nil="true"`
    /// notation for absent optional elements (the serializer never writes them).
    fn nil_docs(&self) -> Vec<String> {
        Vec::new()
    }
}

/// no leading / trailing XML white space (the documented exclusion for element and text strings)
pub fn trimmed(s: &str) -> bool {
    let ws = |c: char| matches!(c, ' ' | '\t' | '\r' | '\n');
    !s.starts_with(ws) && !s.ends_with(ws)
}

/// Strings for element / text positions: no leading or trailing XML white space (documented exclusion).
pub fn text_strings(level: usize) -> Vec<String> {
    let mut v: Vec<&str> = vec!["a", "<", "&amp;", "a b", "]]>", "\"'", "é", "a; b<c;&", "a  b   c", "\x0Cx\x0C", "z\u{FEFF}w\u{7F}\u{85}e"];
    if level >= 1 {
        v.extend(["x<y>&z", "-->", "a\tb\nc", "&#32;", "<![CDATA[", "?>", "1", "\u{FEFF}x", "\u{85}y\u{2028}", "\u{0}z", "\u{10FFFF}"]);
    }
    v.into_iter().map(String::from).collect()
}

/// Strings for attribute positions: anything.
pub fn attr_strings(level: usize) -> Vec<String> {
    let mut v = text_strings(level);
    v.extend(["", " ", " a ", "\n"].iter().map(|s| s.to_string()));
    v
}

/// Items of simple lists: non-empty (documented exclusion)
pub fn list_items(level: usize) -> Vec<String> {
    let mut v: Vec<&str> = vec!["a", "<&>", "\"", "é"];
    if level >= 1 {
        v.extend(["'", "]]>", "1"]);
    }
    v.into_iter().map(String::from).collect()
}

fn lists<T: Clone>(items: &[T], max_len: usize) -> Vec<Vec<T>> {
    let mut out = vec![vec![]];
    let mut frontier = vec![vec![]];
    for _ in 0..max_len {
        let mut next = Vec::new();
        for l in &frontier {
            for it in items {
                let mut n: Vec<T> = l.clone();
                n.push(it.clone());
                next.push(n);
            }
        }
        out.extend(next.iter().cloned());
        frontier = next;
    }
    out
}

fn opt<T: Clone>(v: &[T]) -> Vec<Option<T>> {
    let mut o = vec![None];
    o.extend(v.iter().cloned().map(Some));
    o
}

// ------------------------------------------------------------------------------------------------

#[derive(Serialize, Deserialize, PartialEq, Debug, Clone)]
pub struct Attrs {
    #[serde(rename = "@a")]
    pub a: String,
    #[serde(rename = "@b")]
    pub b: u8,
    #[serde(rename = "@c")]
    pub c: bool,
    #[serde(rename = "@d")]
    pub d: char,
}
impl Fam for Attrs {
    const NAME: &'static str = "Attrs";
    const ELEMENT_ONLY: bool = true;
    fn values(level: usize) -> Vec<Self> {
        let mut v = Vec::new();
        for a in attr_strings(level) {
            for (b, c) in [(0u8, true), (255, false)] {
                for d in ['x', '<', '"', '\'', '&', ' ', 'é', '\n', '\u{1F600}', '\u{FEFF}'] {
                    v.push(Attrs { a: a.clone(), b, c, d });
                }
            }
        }
        v
    }
    fn payload2(s: &str, strict: bool) -> Vec<Self> {
        let mut v = vec![Attrs { a: s.to_string(), b: 1, c: true, d: 'x' }];
        let mut ch = s.chars();
        if let (Some(c), None) = (ch.next(), ch.next()) {
            v.push(Attrs { a: "a".into(), b: 1, c: false, d: c });
        }
        v
    }
}

#[derive(Serialize, Deserialize, PartialEq, Debug, Clone)]
pub struct OptAttr {
    #[serde(rename = "@a", skip_serializing_if = "Option::is_none", default)]
    pub a: Option<String>,
    #[serde(rename = "@n", skip_serializing_if = "Option::is_none", default)]
    pub n: Option<i32>,
    pub e: String,
}
impl Fam for OptAttr {
    const NAME: &'static str = "OptAttr";
    const ELEMENT_ONLY: bool = true;
    fn values(level: usize) -> Vec<Self> {
        let mut v = Vec::new();
        for a in opt(&attr_strings(level)) {
            for n in [None, Some(-1), Some(i32::MAX)] {
                for e in ["", "t", "<&>"] {
                    v.push(OptAttr { a: a.clone(), n, e: e.to_string() });
                }
            }
        }
        v
    }
}

#[derive(Serialize, Deserialize, PartialEq, Debug, Clone)]
pub struct Children {
    pub a: String,
    pub b: i32,
    pub c: f64,
    pub d: bool,
    pub e: char,
}
impl Fam for Children {
    const NAME: &'static str = "Children";
    const ELEMENT_ONLY: bool = true;
    fn values(level: usize) -> Vec<Self> {
        let mut v = Vec::new();
        let mut strs = text_strings(level);
        strs.push(String::new());
        for a in strs {
            for (b, c) in [(0, 0.0), (i32::MIN, -1.5), (7, 1e300)] {
                for (d, e) in [(true, 'x'), (false, '<'), (true, '&'), (false, 'é')] {
                    v.push(Children { a: a.clone(), b, c, d, e });
                }
            }
        }
        v
    }
    fn payload2(s: &str, strict: bool) -> Vec<Self> {
        let mut v = Vec::new();
        if (!strict || trimmed(s)) {
            v.push(Children { a: s.to_string(), b: 0, c: 0.5, d: true, e: 'x' });
        }
        let mut ch = s.chars();
        if let (Some(c), None) = (ch.next(), ch.next()) {
            if (!strict || trimmed(s)) {
                v.push(Children { a: "a".into(), b: 0, c: 0.5, d: true, e: c });
            }
        }
        v
    }
}

/// `$text` with `#[serde(default)]`: an empty text is representable
#[derive(Serialize, Deserialize, PartialEq, Debug, Clone)]
pub struct TextDefault {
    #[serde(rename = "@k")]
    pub k: String,
    #[serde(rename = "$text", default)]
    pub text: String,
}
impl Fam for TextDefault {
    const NAME: &'static str = "TextDefault";
    fn values(level: usize) -> Vec<Self> {
        let mut v = Vec::new();
        let mut strs = text_strings(level);
        strs.push(String::new());
        for k in ["", "k\"<"] {
            for t in &strs {
                v.push(TextDefault { k: k.to_string(), text: t.clone() });
            }
        }
        v
    }
    fn payload2(s: &str, strict: bool) -> Vec<Self> {
        if (!strict || trimmed(s)) {
            vec![TextDefault { k: s.to_string(), text: s.to_string() }]
        } else {
            vec![]
        }
    }
}

/// `$text` without default
#[derive(Serialize, Deserialize, PartialEq, Debug, Clone)]
pub struct TextPlain {
    #[serde(rename = "$text")]
    pub text: String,
}
impl Fam for TextPlain {
    const NAME: &'static str = "TextPlain";
    fn values(level: usize) -> Vec<Self> {
        let mut strs = text_strings(level);
        strs.push(String::new());
        strs.into_iter().map(|text| TextPlain { text }).collect()
    }
    fn payload2(s: &str, strict: bool) -> Vec<Self> {
        if (!strict || trimmed(s)) {
            vec![TextPlain { text: s.to_string() }]
        } else {
            vec![]
        }
    }
    fn shape(&self) -> Option<Shape> {
        if self.text.is_empty() {
            Some(Shape::F5)
        } else {
            None
        }
    }
}

/// `$text` next to element fields (mixed content when the text is not empty)
#[derive(Serialize, Deserialize, PartialEq, Debug, Clone)]
pub struct TextAndElems {
    #[serde(rename = "$text", default)]
    pub t: String,
    pub b: String,
    #[serde(default)]
    pub c: Vec<u8>,
}
impl Fam for TextAndElems {
    const NAME: &'static str = "TextAndElems";
    const ELEMENT_ONLY: bool = true; // for the instances without text; the rewrite checks the document
    fn values(_level: usize) -> Vec<Self> {
        let mut v = Vec::new();
        for t in ["", "x", "a b", "<&>"] {
            for b in ["1", ""] {
                for c in [vec![], vec![7], vec![0, 255]] {
                    v.push(TextAndElems { t: t.to_string(), b: b.to_string(), c });
                }
            }
        }
        v
    }
}

/// `$text`, then a (possibly empty) list field, then an element
#[derive(Serialize, Deserialize, PartialEq, Debug, Clone)]
pub struct TextVecElem {
    #[serde(rename = "$text", default)]
    pub t: String,
    #[serde(default)]
    pub v: Vec<u8>,
    #[serde(default)]
    pub w: Vec<Inner>,
    pub e: String,
}
impl Fam for TextVecElem {
    const NAME: &'static str = "TextVecElem";
    const ELEMENT_ONLY: bool = true;
    fn values(_level: usize) -> Vec<Self> {
        let mut v = Vec::new();
        for t in ["", "x", "a b"] {
            for l in [vec![], vec![1u8], vec![2, 3]] {
                for w in [vec![], vec![Inner { id: 1, name: "n".into() }]] {
                    for e in ["1", ""] {
                        v.push(TextVecElem { t: t.to_string(), v: l.clone(), w: w.clone(), e: e.to_string() });
                    }
                }
            }
        }
        v
    }
}

#[derive(Serialize, Deserialize, PartialEq, Debug, Clone)]
pub struct ValueString {
    #[serde(rename = "@k")]
    pub k: u8,
    #[serde(rename = "$value")]
    pub value: String,
}
impl Fam for ValueString {
    const NAME: &'static str = "ValueString";
    const IGNORES_UNKNOWN_CHILDREN: bool = false;
    fn values(level: usize) -> Vec<Self> {
        let mut strs = text_strings(level);
        strs.push(String::new());
        strs.into_iter().map(|value| ValueString { k: 1, value }).collect()
    }
    fn payload2(s: &str, strict: bool) -> Vec<Self> {
        if (!strict || trimmed(s)) {
            vec![ValueString { k: 1, value: s.to_string() }]
        } else {
            vec![]
        }
    }
    fn shape(&self) -> Option<Shape> {
        if self.value.is_empty() {
            Some(Shape::F5)
        } else {
            None
        }
    }
}

#[derive(Serialize, Deserialize, PartialEq, Debug, Clone)]
pub struct Inner {
    #[serde(rename = "@id")]
    pub id: u8,
    pub name: String,
}
fn inners() -> Vec<Inner> {
    vec![Inner { id: 0, name: "n".into() }, Inner { id: 9, name: "<&>".into() }, Inner { id: 1, name: "".into() }]
}

#[derive(Serialize, Deserialize, PartialEq, Debug, Clone)]
pub struct OptElems {
    #[serde(skip_serializing_if = "Option::is_none", default)]
    pub a: Option<String>,
    #[serde(skip_serializing_if = "Option::is_none", default)]
    pub b: Option<Inner>,
    #[serde(skip_serializing_if = "Option::is_none", default)]
    pub c: Option<u16>,
}
impl Fam for OptElems {
    const NAME: &'static str = "OptElems";
    const ELEMENT_ONLY: bool = true;
    fn nil_docs(&self) -> Vec<String> {
        const XSI: &str = "http://www.w3.org/2001/XMLSchema-instance";
        let esc = |s: &str| quick_xml::escape::escape(s).into_owned();
        let mut docs = Vec::new();
        // every non-empty subset of the absent fields is written as a nil element
        let absent = [self.a.is_none(), self.b.is_none(), self.c.is_none()];
        for mask in 1u8..8 {
            if (0..3).any(|k| mask & (1 << k) != 0 && !absent[k]) {
                continue;
            }
            let mut d = format!("<OptElems xmlns:xsi=\"{}\">", XSI);
            match &self.a {
                Some(a) => d.push_str(&format!("<a>{}</a>", esc(a))),
                None if mask & 1 != 0 => d.push_str("<a xsi:nil=\"true\"/>"),
                None => {}
            }
            match &self.b {
                Some(b) => d.push_str(&format!("<b id=\"{}\"><name>{}</name></b>", b.id, esc(&b.name))),
                None if mask & 2 != 0 => d.push_str("<b xsi:nil=\"1\"><name>ignored</name></b>"),
                None => {}
            }
            match &self.c {
                Some(c) => d.push_str(&format!("<c>{}</c>", c)),
                None if mask & 4 != 0 => d.push_str("<c xsi:nil=\"true\"></c>"),
                None => {}
            }
            d.push_str("</OptElems>");
            docs.push(d);
        }
        docs
    }
    fn values(level: usize) -> Vec<Self> {
        let mut v = Vec::new();
        for a in opt(&text_strings(level)) {
            for b in opt(&inners()) {
                for c in [None, Some(0), Some(u16::MAX)] {
                    v.push(OptElems { a: a.clone(), b: b.clone(), c });
                }
            }
        }
        v
    }
}

#[derive(Serialize, Deserialize, PartialEq, Debug, Clone)]
pub struct VecElems {
    #[serde(default)]
    pub item: Vec<String>,
    #[serde(default)]
    pub n: Vec<u32>,
}
impl Fam for VecElems {
    const NAME: &'static str = "VecElems";
    const ELEMENT_ONLY: bool = true;
    fn values(level: usize) -> Vec<Self> {
        let mut v = Vec::new();
        let mut strs = vec!["a".to_string(), "<&>".to_string(), "".to_string(), "x y".to_string()];
        if level >= 1 {
            strs.push("]]>".into());
        }
        for item in lists(&strs, if level >= 1 { 3 } else { 2 }) {
            for n in [vec![], vec![0], vec![1, u32::MAX, 2]] {
                v.push(VecElems { item: item.clone(), n });
            }
        }
        v
    }
    fn payload2(s: &str, strict: bool) -> Vec<Self> {
        if (!strict || trimmed(s)) {
            vec![VecElems { item: vec![s.to_string(), "x".into(), s.to_string()], n: vec![] }]
        } else {
            vec![]
        }
    }
}

#[derive(Serialize, Deserialize, PartialEq, Debug, Clone)]
pub struct VecStructs {
    #[serde(default)]
    pub item: Vec<Inner>,
    pub tail: String,
}
impl Fam for VecStructs {
    const NAME: &'static str = "VecStructs";
    const ELEMENT_ONLY: bool = true;
    fn values(level: usize) -> Vec<Self> {
        let mut v = Vec::new();
        for item in lists(&inners(), if level >= 1 { 3 } else { 2 }) {
            for tail in ["", "t"] {
                v.push(VecStructs { item: item.clone(), tail: tail.to_string() });
            }
        }
        v
    }
}

#[derive(Serialize, Deserialize, PartialEq, Debug, Clone)]
pub struct TextList {
    #[serde(rename = "$text", default)]
    pub items: Vec<String>,
}
impl Fam for TextList {
    const NAME: &'static str = "TextList";
    fn values(level: usize) -> Vec<Self> {
        let mut items = list_items(level);
        items.push("a b".to_string());
        lists(&items, if level >= 1 { 3 } else { 2 }).into_iter().map(|items| TextList { items }).collect()
    }
    fn payload2(s: &str, strict: bool) -> Vec<Self> {
        if (strict && s.is_empty()) {
            return vec![];
        }
        vec![TextList { items: vec![s.to_string()] }, TextList { items: vec!["x".into(), s.to_string(), "y".into()] }]
    }
    fn with_items_split_at_blanks(&self) -> Option<Self> {
        Some(TextList { items: self.items.iter().flat_map(|i| i.split(' ')).filter(|p| !p.is_empty()).map(String::from).collect() })
    }
    fn shape(&self) -> Option<Shape> {
        if self.items.iter().any(|i| i.contains(' ')) {
            // F6 is about the blank: tab, LF and CR inside an item are written as references and survive
            Some(Shape::F6)
        } else {
            None
        }
    }
}

#[derive(Serialize, Deserialize, PartialEq, Debug, Clone)]
pub struct AttrList {
    #[serde(rename = "@a", default)]
    pub a: Vec<String>,
    #[serde(rename = "@n", default)]
    pub n: Vec<i8>,
}
impl Fam for AttrList {
    const NAME: &'static str = "AttrList";
    const ELEMENT_ONLY: bool = true;
    fn values(level: usize) -> Vec<Self> {
        let mut items = list_items(level);
        items.push("a b".to_string());
        items.push("\t".to_string());
        items.push("\r\n".to_string());
        let mut v = Vec::new();
        for a in lists(&items, if level >= 1 { 3 } else { 2 }) {
            for n in [vec![], vec![-128], vec![1, 2, 127]] {
                v.push(AttrList { a: a.clone(), n });
            }
        }
        v
    }
    fn payload2(s: &str, strict: bool) -> Vec<Self> {
        if (strict && s.is_empty()) {
            return vec![];
        }
        vec![AttrList { a: vec![s.to_string()], n: vec![] }, AttrList { a: vec!["x".into(), s.to_string(), "y".into()], n: vec![1] }]
    }
}

#[derive(Serialize, Deserialize, PartialEq, Debug, Clone, Copy)]
pub enum Color {
    Red,
    #[serde(rename = "dark-blue")]
    DarkBlue,
    G,
}
const COLORS: [Color; 3] = [Color::Red, Color::DarkBlue, Color::G];

#[derive(Serialize, Deserialize, PartialEq, Debug, Clone)]
pub struct UnitEnums {
    #[serde(rename = "@a")]
    pub a: Color,
    pub b: Color,
    #[serde(rename = "$text")]
    pub t: Color,
}
impl Fam for UnitEnums {
    const NAME: &'static str = "UnitEnums";
    fn values(_level: usize) -> Vec<Self> {
        let mut v = Vec::new();
        for a in COLORS {
            for b in COLORS {
                for t in COLORS {
                    v.push(UnitEnums { a, b, t });
                }
            }
        }
        v
    }
}

#[derive(Serialize, Deserialize, PartialEq, Debug, Clone)]
pub enum Choice {
    Unit,
    Newtype(String),
    Num(i16),
    Struct {
        #[serde(rename = "@a")]
        a: String,
        b: String,
    },
    #[serde(rename = "$text")]
    Text(String),
}
fn choices(level: usize, with_text: bool) -> Vec<Choice> {
    let mut v = vec![Choice::Unit, Choice::Num(-5)];
    let strs: Vec<&str> = if level >= 1 { vec!["n", "<&>", "", "]]>"] } else { vec!["n", "<&>", ""] };
    for s in &strs {
        v.push(Choice::Newtype(s.to_string()));
    }
    v.push(Choice::Struct { a: "\"<".into(), b: "b&".into() });
    v.push(Choice::Struct { a: "".into(), b: "".into() });
    if with_text {
        for s in ["t", "<&>", ""] {
            v.push(Choice::Text(s.to_string()));
        }
    }
    v
}

/// optional text content / optional `$value` choice (absent = skipped; present = non-empty,
/// because an empty text is indistinguishable from an absent one by design)
#[derive(Serialize, Deserialize, PartialEq, Debug, Clone)]
pub struct OptText {
    #[serde(rename = "@k")]
    pub k: u8,
    #[serde(rename = "$text", default, skip_serializing_if = "Option::is_none")]
    pub t: Option<String>,
}
impl Fam for OptText {
    const NAME: &'static str = "OptText";
    const IGNORES_UNKNOWN_CHILDREN: bool = false;
    fn values(level: usize) -> Vec<Self> {
        let mut v = vec![OptText { k: 0, t: None }];
        for s in text_strings(level) {
            if !s.is_empty() {
                v.push(OptText { k: 1, t: Some(s) });
            }
        }
        v
    }
    fn payload2(s: &str, strict: bool) -> Vec<Self> {
        if !strict || (trimmed(s) && !s.is_empty()) {
            vec![OptText { k: 1, t: Some(s.to_string()) }]
        } else {
            Vec::new()
        }
    }
}
#[derive(Serialize, Deserialize, PartialEq, Debug, Clone)]
pub struct OptValue {
    #[serde(rename = "@k")]
    pub k: u8,
    #[serde(rename = "$value", default, skip_serializing_if = "Option::is_none")]
    pub v: Option<Choice>,
}
impl Fam for OptValue {
    const NAME: &'static str = "OptValue";
    const IGNORES_UNKNOWN_CHILDREN: bool = false;
    fn values(level: usize) -> Vec<Self> {
        let mut v = vec![OptValue { k: 0, v: None }];
        for c in choices(level, true) {
            if !matches!(&c, Choice::Text(t) if t.is_empty()) {
                v.push(OptValue { k: 1, v: Some(c) });
            }
        }
        v
    }
    fn payload2(s: &str, strict: bool) -> Vec<Self> {
        let mut v = Vec::new();
        if !strict || trimmed(s) {
            v.push(OptValue { k: 1, v: Some(Choice::Newtype(s.to_string())) });
            if !strict || !s.is_empty() {
                v.push(OptValue { k: 1, v: Some(Choice::Text(s.to_string())) });
            }
        }
        v
    }
}

#[derive(Serialize, Deserialize, PartialEq, Debug, Clone)]
pub struct OneChoice {
    #[serde(rename = "@k")]
    pub k: String,
    #[serde(rename = "$value")]
    pub c: Choice,
}
impl Fam for OneChoice {
    const NAME: &'static str = "OneChoice";
    const IGNORES_UNKNOWN_CHILDREN: bool = false;
    fn values(level: usize) -> Vec<Self> {
        choices(level, true).into_iter().map(|c| OneChoice { k: "k".into(), c }).collect()
    }
    fn payload2(s: &str, strict: bool) -> Vec<Self> {
        let mut v = vec![OneChoice { k: s.to_string(), c: Choice::Unit }];
        if (!strict || trimmed(s)) {
            v.push(OneChoice { k: "k".into(), c: Choice::Newtype(s.to_string()) });
            v.push(OneChoice { k: "k".into(), c: Choice::Struct { a: s.to_string(), b: s.to_string() } });
            v.push(OneChoice { k: "k".into(), c: Choice::Text(s.to_string()) });
        } else {
            v.push(OneChoice { k: "k".into(), c: Choice::Struct { a: s.to_string(), b: "b".into() } });
        }
        v
    }
    fn shape(&self) -> Option<Shape> {
        match &self.c {
            Choice::Text(t) if t.is_empty() => Some(Shape::F5),
            _ => None,
        }
    }
}

/// a tuple variant as the single `$value` choice: written as consecutive same-named elements, or
/// (the `$text` variant) as a space-separated list. Not in the literal list of the property's
/// mapping rows, but documented; only shapes that the documentation lets round-trip are used.
#[derive(Serialize, Deserialize, PartialEq, Debug, Clone)]
pub enum TupleChoice {
    Pair(String, u8),
    Triple(String, bool, String),
    Unit,
    #[serde(rename = "$text")]
    List(u16, String),
}
#[derive(Serialize, Deserialize, PartialEq, Debug, Clone)]
pub struct OneTuple {
    #[serde(rename = "@k")]
    pub k: String,
    #[serde(rename = "$value")]
    pub c: TupleChoice,
}
impl Fam for OneTuple {
    const NAME: &'static str = "OneTuple";
    const IGNORES_UNKNOWN_CHILDREN: bool = false;
    fn values(level: usize) -> Vec<Self> {
        let mut v = vec![OneTuple { k: "k".into(), c: TupleChoice::Unit }];
        for s in text_strings(level) {
            v.push(OneTuple { k: "k".into(), c: TupleChoice::Pair(s.clone(), 7) });
            v.push(OneTuple { k: "k".into(), c: TupleChoice::Triple(s.clone(), true, s.clone()) });
            // list items cannot contain blanks (documented: they are the separators)
            if !s.is_empty() && !s.chars().any(|c| c.is_whitespace()) {
                v.push(OneTuple { k: "k".into(), c: TupleChoice::List(65535, s.clone()) });
            }
        }
        v
    }
    fn payload2(s: &str, strict: bool) -> Vec<Self> {
        let mut v = Vec::new();
        if !strict || trimmed(s) {
            v.push(OneTuple { k: "k".into(), c: TupleChoice::Pair(s.to_string(), 0) });
            v.push(OneTuple { k: "k".into(), c: TupleChoice::Triple("a".into(), false, s.to_string()) });
        }
        if !strict || (!s.is_empty() && !s.chars().any(|c| matches!(c, ' ' | '\t' | '\r' | '\n'))) {
            v.push(OneTuple { k: "k".into(), c: TupleChoice::List(1, s.to_string()) });
        }
        v
    }
}

/// mixed content: elements and text items, no two adjacent text items
#[derive(Serialize, Deserialize, PartialEq, Debug, Clone)]
pub struct Mixed {
    #[serde(rename = "$value", default)]
    pub items: Vec<Choice>,
}
impl Fam for Mixed {
    const NAME: &'static str = "Mixed";
    const IGNORES_UNKNOWN_CHILDREN: bool = false;
    fn values(level: usize) -> Vec<Self> {
        let pool = choices(0, true);
        lists(&pool, if level >= 1 { 3 } else { 2 })
            .into_iter()
            .filter(|l| !l.windows(2).any(|w| matches!((&w[0], &w[1]), (Choice::Text(_), Choice::Text(_)))))
            .map(|items| Mixed { items })
            .collect()
    }
    fn payload2(s: &str, strict: bool) -> Vec<Self> {
        if (strict && !trimmed(s)) {
            return vec![];
        }
        vec![
            Mixed { items: vec![Choice::Unit, Choice::Text(s.to_string()), Choice::Newtype(s.to_string())] },
            Mixed { items: vec![Choice::Text(s.to_string()), Choice::Unit, Choice::Text(s.to_string())] },
        ]
    }
    fn without_empty_text_items(&self) -> Option<Self> {
        Some(Mixed { items: self.items.iter().filter(|c| !matches!(c, Choice::Text(t) if t.is_empty())).cloned().collect() })
    }
    fn shape(&self) -> Option<Shape> {
        if self.items.iter().any(|c| matches!(c, Choice::Text(t) if t.is_empty())) {
            Some(Shape::F5)
        } else {
            None
        }
    }
}

#[derive(Serialize, Deserialize, PartialEq, Debug, Clone)]
pub struct Nested {
    #[serde(rename = "@v")]
    pub v: String,
    pub inner: Inner,
    pub deep: Deep,
}
#[derive(Serialize, Deserialize, PartialEq, Debug, Clone)]
pub struct Deep {
    #[serde(default)]
    pub inner: Vec<Inner>,
    #[serde(rename = "$text", default)]
    pub t: String,
}
impl Fam for Nested {
    const NAME: &'static str = "Nested";
    const ELEMENT_ONLY: bool = true;
    fn values(_level: usize) -> Vec<Self> {
        let mut v = Vec::new();
        for inner in inners() {
            for deep_inner in lists(&inners()[..2], 2) {
                for t in ["", "t<"] {
                    // text next to elements inside `deep` is mixed content: keep element-only or text-only
                    if !t.is_empty() && !deep_inner.is_empty() {
                        continue;
                    }
                    v.push(Nested { v: "v".into(), inner: inner.clone(), deep: Deep { inner: deep_inner.clone(), t: t.to_string() } });
                }
            }
        }
        v
    }
}

#[derive(Serialize, Deserialize, PartialEq, Debug, Clone)]
pub struct MapHolder {
    pub m: BTreeMap<String, String>,
}
impl Fam for MapHolder {
    const NAME: &'static str = "MapHolder";
    const ELEMENT_ONLY: bool = true;
    fn values(level: usize) -> Vec<Self> {
        let keys = ["a", "b-c", "_x", "é"];
        let vals: Vec<&str> = if level >= 1 { vec!["", "v", "<&>", "a b"] } else { vec!["", "v", "<&>"] };
        let mut v = vec![MapHolder { m: BTreeMap::new() }];
        for (i, k1) in keys.iter().enumerate() {
            for v1 in &vals {
                let mut m = BTreeMap::new();
                m.insert(k1.to_string(), v1.to_string());
                v.push(MapHolder { m: m.clone() });
                for k2 in &keys[i + 1..] {
                    for v2 in &vals {
                        let mut m2 = m.clone();
                        m2.insert(k2.to_string(), v2.to_string());
                        v.push(MapHolder { m: m2 });
                    }
                }
            }
        }
        v
    }
    fn payload2(s: &str, strict: bool) -> Vec<Self> {
        if (strict && !trimmed(s)) {
            return vec![];
        }
        let mut m = BTreeMap::new();
        m.insert("k".to_string(), s.to_string());
        vec![MapHolder { m }]
    }
}

#[derive(Serialize, Deserialize, PartialEq, Debug, Clone)]
pub struct NewtypeStr(pub String);
impl Fam for NewtypeStr {
    const NAME: &'static str = "NewtypeStr";
    fn values(level: usize) -> Vec<Self> {
        let mut s = text_strings(level);
        s.push(String::new());
        s.into_iter().map(NewtypeStr).collect()
    }
    fn payload2(s: &str, strict: bool) -> Vec<Self> {
        if (!strict || trimmed(s)) {
            vec![NewtypeStr(s.to_string())]
        } else {
            vec![]
        }
    }
}

#[derive(Serialize, Deserialize, PartialEq, Debug, Clone)]
pub struct NewtypeHolder {
    pub n: NewtypeStr,
    #[serde(rename = "@m")]
    pub m: NewtypeStr,
    pub t: (u8, String),
}
impl Fam for NewtypeHolder {
    const NAME: &'static str = "NewtypeHolder";
    const ELEMENT_ONLY: bool = true;
    fn values(level: usize) -> Vec<Self> {
        let mut v = Vec::new();
        for n in text_strings(level) {
            for m in ["", " m ", "<"] {
                for t in [(0u8, "x".to_string()), (255, "<&>".to_string())] {
                    v.push(NewtypeHolder { n: NewtypeStr(n.clone()), m: NewtypeStr(m.to_string()), t });
                }
            }
        }
        v
    }
}

#[derive(Serialize, Deserialize, PartialEq, Debug, Clone)]
pub struct Numbers {
    pub a: i64,
    pub b: u64,
    #[serde(rename = "@c")]
    pub c: i8,
    #[serde(rename = "@d")]
    pub d: f32,
    pub e: u128,
    pub f: f64,
    /// simple-type position (attribute) has its own number parser
    #[serde(rename = "@g")]
    pub g: u64,
    #[serde(rename = "@h")]
    pub h: Vec<usize>,
}
impl Fam for Numbers {
    const NAME: &'static str = "Numbers";
    const ELEMENT_ONLY: bool = true;
    fn values(_level: usize) -> Vec<Self> {
        let mut v = Vec::new();
        for (a, b) in [(i64::MIN, u64::MAX), (0, 0), (-1, 1)] {
            for (c, d) in [(i8::MIN, 0.5f32), (i8::MAX, -3.25), (0, 1e10), (-1, f32::INFINITY), (1, f32::MIN)] {
                for (e, f) in [(u128::MAX, f64::MIN_POSITIVE), (0, -0.0), (7, 123456.789), (1 << 64, f64::NEG_INFINITY), (u64::MAX as u128, f64::MAX)] {
                    v.push(Numbers { a, b, c, d, e, f, g: if c == 0 { 1 << 63 } else { u64::MAX - (e as u64 & 1) }, h: if c < 0 { vec![] } else { vec![usize::MAX, 0, 1 << 63] } });
                }
            }
        }
        v
    }
}

#[derive(Serialize, Deserialize, PartialEq, Debug, Clone)]
pub enum TopEnum {
    A,
    B(String),
    C {
        #[serde(rename = "@x")]
        x: u8,
        y: String,
    },
    #[serde(rename = "renamed-d")]
    D(Inner),
}
impl Fam for TopEnum {
    const NAME: &'static str = "TopEnum";
    const IGNORES_UNKNOWN_CHILDREN: bool = false;
    fn values(level: usize) -> Vec<Self> {
        let mut v = vec![TopEnum::A];
        let mut s = text_strings(level);
        s.push(String::new());
        for t in s {
            v.push(TopEnum::B(t.clone()));
            v.push(TopEnum::C { x: 3, y: t });
        }
        for i in inners() {
            v.push(TopEnum::D(i));
        }
        v
    }
    fn payload2(s: &str, strict: bool) -> Vec<Self> {
        if (!strict || trimmed(s)) {
            vec![TopEnum::B(s.to_string()), TopEnum::C { x: 1, y: s.to_string() }]
        } else {
            vec![]
        }
    }
}

#[derive(Serialize, Deserialize, PartialEq, Debug, Clone)]
#[serde(rename = "root-x")]
pub struct Renamed {
    // prefixed names are outside the round-trip domain: the documented key mapping strips the prefix
    #[serde(rename = "@la.ng")]
    pub lang: String,
    #[serde(rename = "_child")]
    pub child: String,
    #[serde(rename = "kebab-case")]
    pub k: Color,
}
impl Fam for Renamed {
    const NAME: &'static str = "Renamed";
    const ELEMENT_ONLY: bool = true;
    fn values(level: usize) -> Vec<Self> {
        let mut v = Vec::new();
        for lang in ["en", ""] {
            for child in text_strings(level) {
                for k in COLORS {
                    v.push(Renamed { lang: lang.to_string(), child: child.clone(), k });
                }
            }
        }
        v
    }
}

/// Runs `$body` once for every type of the family with `T` bound to it.
#[macro_export]
macro_rules! for_each_type {
    ($mac:ident) => {
        $mac!(
            Attrs, OptAttr, Children, TextDefault, TextPlain, TextAndElems, TextVecElem, ValueString, OptElems, VecElems, VecStructs, TextList,
            AttrList, UnitEnums, OptText, OptValue, OneChoice, OneTuple, Mixed, Nested, MapHolder, NewtypeStr, NewtypeHolder, Numbers, TopEnum, Renamed
        );
    };
}
