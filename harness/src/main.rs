//! qxmc — bounded-exhaustive model checking of quick-xml's 20 semantic properties.
//!
//! usage: qxmc run <ID> <quick|thorough>
//!        qxmc replay <file>

mod common;
mod inputs;
mod trace;
mod types;
mod props;
#[allow(dead_code)]
mod models;
#[allow(dead_code)]
mod env;

use common::*;

fn main() {
    install_panic_hook();
    let args: Vec<String> = std::env::args().collect();
    if args.len() < 2 {
        eprintln!("usage: qxmc run <ID> <quick|thorough> | qxmc replay <file>");
        std::process::exit(2);
    }
    match args[1].as_str() {
        "run" => {
            let id = args.get(2).expect("property id");
            let tier = match args.get(3).map(|s| s.as_str()) {
                Some("thorough") => Tier::Thorough,
                _ => Tier::Quick,
            };
            let seed = std::env::var("VERIF_SEED")
                .ok()
                .and_then(|s| s.parse::<u64>().ok())
                .unwrap_or(0);
            let Some((name, f)) = props::find(id) else {
                eprintln!("unknown property {}", id);
                std::process::exit(2);
            };
            let mut ctx = Ctx::new(name, tier, seed);
            f(&mut ctx);
            std::process::exit(ctx.finish());
        }
        "replay" => {
            let path = args.get(2).expect("replay file");
            let body = std::fs::read_to_string(path).expect("cannot read replay file");
            let v: serde_json::Value = serde_json::from_str(&body).expect("replay file is not JSON");
            let id = v["property"].as_str().expect("no property in replay file");
            if let Some(b) = v["build"].as_str() {
                if b != build_name() {
                    eprintln!("note: replay recorded on build `{}`, this is `{}`", b, build_name());
                }
            }
            println!("property: {}\nrecorded: {}", id, v["what"].as_str().unwrap_or(""));
            match props::replay(id, &v["case"]) {
                Ok(()) => {
                    println!("REPLAY: property holds on this case now");
                    std::process::exit(0)
                }
                Err(e) => {
                    println!("REPLAY: violation reproduced: {}", e);
                    std::process::exit(1)
                }
            }
        }
        _ => {
            eprintln!("unknown command");
            std::process::exit(2);
        }
    }
}
