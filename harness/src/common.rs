//! Shared plumbing: tiers, parallel enumeration, statistics, evidence / replay files,
//! panic capture, known findings.

use serde_json::{json, Value};
use std::cell::RefCell;
use std::collections::{BTreeMap, HashSet};
use std::hash::{Hash, Hasher};
use std::panic::{catch_unwind, AssertUnwindSafe, UnwindSafe};
use std::sync::atomic::{AtomicBool, AtomicU64, Ordering};
use std::sync::Mutex;
use std::time::{Duration, Instant};

pub fn verif_dir() -> String {
    std::env::var("QXMC_VERIF_DIR").unwrap_or_else(|_| "/verif".to_string())
}

#[derive(Clone, Copy, PartialEq, Eq, Debug)]
pub enum Tier {
    Quick,
    Thorough,
}

impl Tier {
    pub fn name(self) -> &'static str {
        match self {
            Tier::Quick => "quick",
            Tier::Thorough => "thorough",
        }
    }
    pub fn pick<T>(self, quick: T, thorough: T) -> T {
        match self {
            Tier::Quick => quick,
            Tier::Thorough => thorough,
        }
    }
}

pub fn build_name() -> &'static str {
    if cfg!(feature = "full") {
        "full"
    } else {
        "min"
    }
}

pub fn workers() -> usize {
    std::env::var("QXMC_WORKERS")
        .ok()
        .and_then(|s| s.parse().ok())
        .unwrap_or_else(|| {
            std::thread::available_parallelism()
                .map(|n| n.get())
                .unwrap_or(4)
        })
}

// ------------------------------------------------------------------------------------------------
// Panic capture

thread_local! {
    static LAST_PANIC: RefCell<Option<String>> = RefCell::new(None);
}

pub fn install_panic_hook() {
    std::panic::set_hook(Box::new(|info| {
        let loc = info
            .location()
            .map(|l| format!("{}:{}", l.file(), l.line()))
            .unwrap_or_else(|| "?".into());
        let msg = if let Some(s) = info.payload().downcast_ref::<&str>() {
            s.to_string()
        } else if let Some(s) = info.payload().downcast_ref::<String>() {
            s.clone()
        } else {
            "<non-string panic>".into()
        };
        LAST_PANIC.with(|p| *p.borrow_mut() = Some(format!("{} @ {}", msg, loc)));
    }));
}

/// Runs `f`; a panic becomes `Err(description)`.
pub fn guarded<R>(f: impl FnOnce() -> R + UnwindSafe) -> Result<R, String> {
    match catch_unwind(f) {
        Ok(r) => Ok(r),
        Err(_) => Err(LAST_PANIC
            .with(|p| p.borrow_mut().take())
            .unwrap_or_else(|| "panic (no message)".into())),
    }
}

pub fn guarded_mut<R>(f: impl FnOnce() -> R) -> Result<R, String> {
    guarded(AssertUnwindSafe(f))
}

// ------------------------------------------------------------------------------------------------
// Hash helper

pub fn h64<T: Hash + ?Sized>(t: &T) -> u64 {
    let mut h = std::collections::hash_map::DefaultHasher::new();
    t.hash(&mut h);
    h.finish()
}

// ------------------------------------------------------------------------------------------------
// Per-worker accumulator and merged report

#[derive(Clone, Debug)]
pub struct Violation {
    /// enumeration order key: (layer, index) — the smallest one is reported first
    pub order: (u32, u64),
    pub what: String,
    pub case: Value,
}

#[derive(Default)]
pub struct Acc {
    pub evaluations: u64,
    pub transitions: u64,
    pub traces: u64,
    pub states: HashSet<u64>,
    pub nontrivial: HashSet<u64>,
    /// non-trivial cases that are distinct by construction of the enumeration (no hashing needed)
    pub nt_count: u64,
    pub violations: Vec<Violation>,
    /// finding id -> (count, first example)
    pub known: BTreeMap<String, (u64, String)>,
    pub samples: Vec<(u64, Value)>,
    pub counters: BTreeMap<String, u64>,
    pub capped_sets: bool,
}

pub static MACHINERY_FAILED: AtomicBool = AtomicBool::new(false);

pub const SET_CAP: usize = 4_000_000;
pub const MAX_VIOL_PER_WORKER: usize = 8;

impl Acc {
    pub fn state(&mut self, h: u64) {
        if self.states.len() < SET_CAP {
            self.states.insert(h);
        } else {
            self.capped_sets = true;
        }
    }
    pub fn nontrivial(&mut self, h: u64) {
        if self.nontrivial.len() < SET_CAP {
            self.nontrivial.insert(h);
        } else {
            self.capped_sets = true;
        }
    }
    pub fn count(&mut self, key: &str, n: u64) {
        if let Some(c) = self.counters.get_mut(key) {
            *c += n;
        } else {
            self.counters.insert(key.to_string(), n);
        }
    }
    pub fn violation(&mut self, order: (u32, u64), what: String, case: Value) {
        if self.violations.len() < MAX_VIOL_PER_WORKER {
            self.violations.push(Violation { order, what, case });
        } else if let Some(maxpos) = self
            .violations
            .iter()
            .enumerate()
            .max_by_key(|(_, v)| v.order)
            .map(|(i, _)| i)
        {
            if self.violations[maxpos].order > order {
                self.violations[maxpos] = Violation { order, what, case };
            }
        }
        self.count("violating_cases", 1);
    }
    pub fn known(&mut self, id: &str, example: impl FnOnce() -> String) {
        match self.known.get_mut(id) {
            Some(e) => e.0 += 1,
            None => {
                self.known.insert(id.to_string(), (1, example()));
            }
        }
    }
    /// Reservoir-free deterministic sampling: keep the cases whose keyed hash is smallest.
    pub fn sample(&mut self, seed: u64, key: u64, mk: impl FnOnce() -> Value) {
        let score = h64(&(seed, key));
        if self.samples.len() < 6 {
            self.samples.push((score, mk()));
        } else {
            let (imax, smax) = self
                .samples
                .iter()
                .enumerate()
                .map(|(i, s)| (i, s.0))
                .max_by_key(|x| x.1)
                .unwrap();
            if score < smax {
                self.samples[imax] = (score, mk());
            }
        }
    }
    pub fn merge(&mut self, o: Acc) {
        self.evaluations += o.evaluations;
        self.transitions += o.transitions;
        self.traces += o.traces;
        self.nt_count += o.nt_count;
        self.capped_sets |= o.capped_sets;
        for s in o.states {
            self.state(s);
        }
        for s in o.nontrivial {
            self.nontrivial(s);
        }
        self.violations.extend(o.violations);
        for (k, (n, ex)) in o.known {
            match self.known.get_mut(&k) {
                Some(e) => e.0 += n,
                None => {
                    self.known.insert(k, (n, ex));
                }
            }
        }
        self.samples.extend(o.samples);
        self.samples.sort_by_key(|s| s.0);
        self.samples.dedup_by_key(|s| s.0);
        self.samples.truncate(8);
        for (k, n) in o.counters {
            *self.counters.entry(k).or_insert(0) += n;
        }
    }
}

// ------------------------------------------------------------------------------------------------
// Run context

pub struct Ctx {
    pub prop: &'static str,
    pub tier: Tier,
    pub seed: u64,
    pub start: Instant,
    pub budget: Duration,
    pub acc: Mutex<Acc>,
    pub layers: Mutex<Vec<Value>>,
    pub stop: AtomicBool,
    pub level: &'static str,
    pub rule: Mutex<String>,
    pub assumptions: Mutex<Vec<String>>,
    pub all_exhaustive: AtomicBool,
}

impl Ctx {
    pub fn new(prop: &'static str, tier: Tier, seed: u64) -> Ctx {
        let budget_s = std::env::var("QXMC_BUDGET_S")
            .ok()
            .and_then(|s| s.parse::<u64>().ok())
            .unwrap_or(tier.pick(300, 2400));
        Ctx {
            prop,
            tier,
            seed,
            start: Instant::now(),
            budget: Duration::from_secs(budget_s),
            acc: Mutex::new(Acc::default()),
            layers: Mutex::new(Vec::new()),
            stop: AtomicBool::new(false),
            level: "model_checking",
            rule: Mutex::new(String::new()),
            assumptions: Mutex::new(Vec::new()),
            all_exhaustive: AtomicBool::new(true),
        }
    }
    pub fn out_of_time(&self) -> bool {
        self.start.elapsed() > self.budget
    }
    pub fn set_rule(&self, r: &str) {
        *self.rule.lock().unwrap() = r.to_string();
    }
    pub fn assume(&self, a: &str) {
        self.assumptions.lock().unwrap().push(a.to_string());
    }

    /// Exhaustively runs `f(index, acc)` for all `index in 0..total`, partitioned dynamically over
    /// worker threads in blocks. Stops early (and marks the layer as capped) when the time budget
    /// is exceeded. Results are merged deterministically (sets / sums / smallest violations).
    pub fn layer<F>(&self, name: &str, layer_no: u32, total: u64, desc: Value, f: F)
    where
        F: Fn(u64, &mut Acc) + Sync,
    {
        let t0 = Instant::now();
        let next = AtomicU64::new(0);
        let done = AtomicU64::new(0);
        let block = (total / (workers() as u64 * 64)).clamp(1, 1 << 14);
        let capped = AtomicBool::new(false);
        std::thread::scope(|s| {
            for _ in 0..workers() {
                s.spawn(|| {
                    let mut acc = Acc::default();
                    loop {
                        if self.out_of_time() {
                            if next.load(Ordering::Relaxed) < total {
                                capped.store(true, Ordering::Relaxed);
                            }
                            break;
                        }
                        let a = next.fetch_add(block, Ordering::Relaxed);
                        if a >= total {
                            break;
                        }
                        let b = (a + block).min(total);
                        for i in a..b {
                            // a panic that escapes the property's own guards: a panic raised inside quick-xml is a
                            // finding for the case at hand (reported as a violation), anything else is a failure of
                            // the machinery (exit 2, never a verdict)
                            if let Err(msg) = guarded_mut(|| f(i, &mut acc)) {
                                let loc = msg.rsplit(" @ ").next().unwrap_or("");
                                if loc.contains("/repo/src/") || loc.contains("quick-xml") || loc.contains("quick_xml") {
                                    acc.violation((layer_no, i), format!("layer {} case #{}: quick-xml panicked outside every guarded call: {}", name, i, msg), json!({"layer": name, "index": i, "unguarded_panic": msg}));
                                } else {
                                    eprintln!("MACHINERY: panic in the checker itself (layer {} case #{}): {}", name, i, msg);
                                    MACHINERY_FAILED.store(true, Ordering::Relaxed);
                                }
                            }
                        }
                        done.fetch_add(b - a, Ordering::Relaxed);
                    }
                    self.acc.lock().unwrap().merge(acc);
                });
            }
        });
        let capped = capped.load(Ordering::Relaxed);
        if capped {
            self.all_exhaustive.store(false, Ordering::Relaxed);
        }
        let mut l = json!({
            "layer": name,
            "space": total,
            "explored": done.load(Ordering::Relaxed),
            "exhaustive": !capped,
            "wall_s": t0.elapsed().as_secs_f64(),
        });
        if let (Some(o), Some(d)) = (l.as_object_mut(), desc.as_object()) {
            for (k, v) in d {
                o.insert(k.clone(), v.clone());
            }
        }
        eprintln!(
            "[{}] layer {:<28} space={:<12} explored={:<12} {}{:.1}s",
            self.prop,
            name,
            total,
            done.load(Ordering::Relaxed),
            if capped { "CAPPED(time) " } else { "" },
            t0.elapsed().as_secs_f64()
        );
        self.layers.lock().unwrap().push(l);
    }

    /// Finishes the run: writes evidence + replay files, prints VIOLATION / KNOWN-FINDING lines,
    /// returns the process exit code.
    pub fn finish(self) -> i32 {
        let mut acc = self.acc.into_inner().unwrap();
        acc.violations.sort_by(|a, b| a.order.cmp(&b.order));
        let nviol = acc.counters.get("violating_cases").copied().unwrap_or(0);
        let dir = format!("{}/replays/{}", verif_dir(), self.prop);
        let mut lines = Vec::new();
        if !acc.violations.is_empty() {
            let _ = std::fs::create_dir_all(&dir);
            for (n, v) in acc.violations.iter().take(5).enumerate() {
                let path = format!("{}/{}-{}-{}.json", dir, build_name(), self.tier.name(), n);
                let body = json!({
                    "property": self.prop,
                    "build": build_name(),
                    "what": v.what,
                    "case": v.case,
                });
                let _ = std::fs::write(&path, serde_json::to_string_pretty(&body).unwrap());
                lines.push(format!("VIOLATION property={} replay={}", self.prop, path));
                eprintln!("[{}] violation: {}", self.prop, v.what);
            }
        }
        let known_json: Vec<Value> = acc
            .known
            .iter()
            .map(|(k, (n, ex))| json!({"finding": k, "instances": n, "example": ex}))
            .collect();
        for (k, (n, ex)) in &acc.known {
            println!(
                "KNOWN-FINDING: property={} {} ({} instances; e.g. {})",
                self.prop, k, n, ex
            );
        }
        let samples: Vec<Value> = acc.samples.iter().map(|s| s.1.clone()).collect();
        let exhaustive = self.all_exhaustive.load(Ordering::Relaxed);
        let ev = json!({
            "property_id": self.prop,
            "tier": self.tier.name(),
            "seed": self.seed,
            "level": self.level,
            "coverage": {
                "states": acc.states.len().max(1),
                "transitions": acc.transitions.max(1),
                "traces_validated_against_impl": acc.traces,
                "evaluations": acc.evaluations.max(1),
                "distinct_nontrivial": acc.nontrivial.len() as u64 + acc.nt_count,
                "rule": *self.rule.lock().unwrap(),
                "samples": samples,
                "exhaustive": exhaustive,
                "layers": *self.layers.lock().unwrap(),
                "counters": acc.counters,
                "hash_sets_capped": acc.capped_sets,
                "build": build_name(),
                "known_findings": known_json,
            },
            "assumptions": *self.assumptions.lock().unwrap(),
            "wall_s": self.start.elapsed().as_secs_f64(),
            "violations": nviol,
        });
        let evdir = format!("{}/evidence/parts", verif_dir());
        let _ = std::fs::create_dir_all(&evdir);
        let path = format!("{}/{}.{}.json", evdir, self.prop, build_name());
        std::fs::write(&path, serde_json::to_string_pretty(&ev).unwrap())
            .expect("cannot write evidence part");
        for l in &lines {
            println!("{}", l);
        }
        eprintln!(
            "[{}] {} build={} evaluations={} transitions={} states={} nontrivial={} violations={} known={} exhaustive={} wall={:.1}s",
            self.prop,
            self.tier.name(),
            build_name(),
            acc.evaluations,
            acc.transitions,
            acc.states.len(),
            acc.nontrivial.len() as u64 + acc.nt_count,
            nviol,
            acc.known.len(),
            exhaustive,
            self.start.elapsed().as_secs_f64()
        );
        if MACHINERY_FAILED.load(Ordering::Relaxed) {
            2
        } else if nviol > 0 {
            1
        } else {
            0
        }
    }
}

// ------------------------------------------------------------------------------------------------
// Known findings file

pub struct Known {
    open: HashSet<String>,
}

impl Known {
    pub fn load() -> Known {
        let path = format!("{}/known_findings.json", verif_dir());
        let mut open = HashSet::new();
        if let Ok(s) = std::fs::read_to_string(&path) {
            let v: Value = serde_json::from_str(&s).expect("known_findings.json is not JSON");
            if let Some(arr) = v.get("findings").and_then(|a| a.as_array()) {
                for f in arr {
                    if f.get("status").and_then(|s| s.as_str()) == Some("open") {
                        if let Some(id) = f.get("id").and_then(|s| s.as_str()) {
                            open.insert(id.to_string());
                        }
                    }
                }
            }
        }
        Known { open }
    }
    pub fn is_open(&self, id: &str) -> bool {
        self.open.contains(id)
    }
}

// ------------------------------------------------------------------------------------------------
// Enumeration helpers

/// Number of strings of length exactly `l` over `k` symbols.
pub fn pow(k: u64, l: u32) -> u64 {
    k.pow(l)
}

/// Total number of strings of length `0..=max_len` over `k` symbols.
pub fn count_upto(k: u64, max_len: u32) -> u64 {
    (0..=max_len).map(|l| pow(k, l)).sum()
}

/// Decodes index `idx` (0-based over all strings of length 0..=max_len in length-then-lexicographic
/// order) into symbol indices.
pub fn decode_upto(k: u64, max_len: u32, mut idx: u64, out: &mut Vec<u8>) {
    out.clear();
    let mut l = 0;
    loop {
        let n = pow(k, l);
        if idx < n {
            break;
        }
        idx -= n;
        l += 1;
        assert!(l <= max_len);
    }
    for _ in 0..l {
        out.push((idx % k) as u8);
        idx /= k;
    }
    out.reverse();
}

pub fn lossy(b: &[u8]) -> String {
    let mut s = String::new();
    for &c in b {
        match c {
            b'\n' => s.push_str("\\n"),
            b'\t' => s.push_str("\\t"),
            b'\r' => s.push_str("\\r"),
            b'\\' => s.push_str("\\\\"),
            0x20..=0x7e => s.push(c as char),
            _ => s.push_str(&format!("\\x{:02x}", c)),
        }
    }
    s
}

pub fn hex(b: &[u8]) -> String {
    b.iter().map(|c| format!("{:02x}", c)).collect()
}

pub fn unhex(s: &str) -> Vec<u8> {
    (0..s.len() / 2)
        .map(|i| u8::from_str_radix(&s[2 * i..2 * i + 2], 16).unwrap())
        .collect()
}

pub fn bytes_json(b: &[u8]) -> Value {
    json!({"hex": hex(b), "text": lossy(b)})
}

pub fn bytes_from_json(v: &Value) -> Vec<u8> {
    unhex(v.get("hex").and_then(|h| h.as_str()).unwrap_or(""))
}

/// `lossy` for messages: long inputs (size-threshold layers) are shown as head … tail.
pub fn lossy_head(b: &[u8]) -> String {
    if b.len() <= 400 {
        lossy(b)
    } else {
        format!("{}…({} bytes)…{}", lossy(&b[..150]), b.len(), lossy(&b[b.len() - 100..]))
    }
}
