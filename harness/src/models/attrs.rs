//! Reference grammar for attribute iteration, written from the `AttrError` / `Attr` documentation
//! (error position + documented recovery position of every error).
//!
//! Two expectations are *pinned* (the documentation leaves them open, the implementation's
//! behaviour is observable): (1) the first non-blank byte of an attribute always belongs to the
//! key, even if it is `=` or a quote; (2) a key counts as "seen" for duplicate detection once it
//! was accepted (XML: its `=` was reached; HTML: also a value-less key).

use super::lex::is_ws;

#[derive(Clone, PartialEq, Eq, Debug, Hash)]
pub enum Item {
    Attr { key: Vec<u8>, value: Vec<u8> },
    ExpectedEq(usize),
    ExpectedValue(usize),
    UnquotedValue(usize),
    ExpectedQuote(usize, u8),
    Duplicated(usize, usize),
}

fn skip_ws(s: &[u8], mut p: usize) -> usize {
    while p < s.len() && is_ws(s[p]) {
        p += 1;
    }
    p
}

fn next_ws(s: &[u8], mut p: usize) -> usize {
    while p < s.len() && !is_ws(s[p]) {
        p += 1;
    }
    p
}

/// Items the iterator must yield for the attribute area `s[start..]` (positions are relative to
/// the beginning of `s`).
pub fn parse(s: &[u8], start: usize, html: bool, checks: bool) -> Vec<Item> {
    let n = s.len();
    let mut out = Vec::new();
    let mut seen: Vec<(usize, usize)> = Vec::new();
    let mut pos = start;
    loop {
        pos = skip_ws(s, pos);
        if pos >= n {
            return out;
        }
        let ks = pos;
        pos += 1;
        while pos < n && s[pos] != b'=' && !is_ws(s[pos]) {
            pos += 1;
        }
        let ke = pos;
        let q = skip_ws(s, pos);
        let dup_of = |seen: &Vec<(usize, usize)>| seen.iter().find(|&&(a, b)| s[a..b] == s[ks..ke]).map(|&(a, _)| a);
        if q >= n || s[q] != b'=' {
            // a key without `=`
            if html {
                match if checks { dup_of(&seen) } else { None } {
                    Some(prev) => out.push(Item::Duplicated(ks, prev)),
                    None => {
                        seen.push((ks, ke));
                        out.push(Item::Attr { key: s[ks..ke].to_vec(), value: Vec::new() });
                    }
                }
            } else {
                out.push(Item::ExpectedEq(q.min(n)));
            }
            if q >= n {
                return out;
            }
            pos = q;
            continue;
        }
        // `=` at q
        let v = skip_ws(s, q + 1);
        if checks {
            if let Some(prev) = dup_of(&seen) {
                out.push(Item::Duplicated(ks, prev));
                // recovery position: behind the duplicate's value
                if v >= n {
                    return out;
                }
                if s[v] == b'"' || s[v] == b'\'' {
                    match s[v + 1..].iter().position(|&b| b == s[v]) {
                        Some(c) => pos = v + 1 + c + 1,
                        None => return out,
                    }
                } else {
                    pos = next_ws(s, v);
                    if pos >= n {
                        return out;
                    }
                }
                continue;
            }
            seen.push((ks, ke));
        }
        if v >= n {
            out.push(Item::ExpectedValue(n));
            return out;
        }
        if s[v] == b'"' || s[v] == b'\'' {
            match s[v + 1..].iter().position(|&b| b == s[v]) {
                Some(c) => {
                    out.push(Item::Attr { key: s[ks..ke].to_vec(), value: s[v + 1..v + 1 + c].to_vec() });
                    pos = v + 1 + c + 1;
                }
                None => {
                    out.push(Item::ExpectedQuote(n, s[v]));
                    return out;
                }
            }
        } else {
            let e = next_ws(s, v);
            if html {
                out.push(Item::Attr { key: s[ks..ke].to_vec(), value: s[v..e].to_vec() });
            } else {
                out.push(Item::UnquotedValue(v));
            }
            if e >= n {
                return out;
            }
            pos = e;
        }
    }
}
