//! Configuration layer of the reference model: turns the lexical token stream into the stream of
//! observations a reader with configuration `cfg` must produce (documented meaning of the seven
//! switches + the open-element stack of C04).

use super::lex::{is_ws, Kind, Lexed};
use crate::trace::*;

/// Expected observation. `pos` / `err_pos` are `None` where the property does not fix them.
#[derive(Clone, PartialEq, Eq, Debug)]
pub struct Exp {
    pub ev: Ev,
    pub pos: Option<u64>,
    pub err_pos: Option<u64>,
}

/// Interpretation variants for the two places the documentation leaves open.
pub const V_WS_END_NAME_EMPTY: u8 = 1; // `</  >` with trimming on gives an empty name (else: untrimmed)
pub const V_COMMENT_TAIL_HYPHEN: u8 = 2; // `<!--a--->` counts as `--` in a comment when checked

pub fn rtrim(b: &[u8]) -> &[u8] {
    let n = b.iter().rposition(|&c| !is_ws(c)).map_or(0, |p| p + 1);
    &b[..n]
}
pub fn ltrim(b: &[u8]) -> &[u8] {
    let n = b.iter().position(|&c| !is_ws(c)).unwrap_or(b.len());
    &b[n..]
}

fn lossy_string(b: &[u8]) -> String {
    // the reader decodes names for error payloads; undecodable names become empty strings
    match std::str::from_utf8(b) {
        Ok(s) => s.to_string(),
        Err(_) => String::new(),
    }
}

/// Open-element stack of the reference model (C04).
#[derive(Clone, Default, Debug, PartialEq, Eq, Hash)]
pub struct TagStack(pub Vec<Vec<u8>>);

pub enum EndVerdict {
    Ok,
    Mismatch { expected: String, found: String },
    Unmatched(String),
}

impl TagStack {
    pub fn start(&mut self, name: &[u8]) {
        self.0.push(name.to_vec());
    }
    /// An end tag always pops (#513, #514), whatever the switches say.
    pub fn end(&mut self, name: &[u8], cfg: u8) -> EndVerdict {
        match self.0.pop() {
            Some(top) => {
                if cfg & CHECK_END_NAMES != 0 && top != name {
                    EndVerdict::Mismatch { expected: lossy_string(&top), found: lossy_string(name) }
                } else {
                    EndVerdict::Ok
                }
            }
            None => {
                if cfg & ALLOW_UNMATCHED == 0 {
                    EndVerdict::Unmatched(lossy_string(name))
                } else {
                    EndVerdict::Ok
                }
            }
        }
    }
}

pub fn end_name<'a>(content: &'a [u8], cfg: u8, variant: u8, ambiguous: &mut u8) -> &'a [u8] {
    if cfg & TRIM_NAMES == 0 {
        return content;
    }
    let t = rtrim(content);
    if t.is_empty() && !content.is_empty() {
        *ambiguous |= V_WS_END_NAME_EMPTY;
        if variant & V_WS_END_NAME_EMPTY != 0 {
            t
        } else {
            content
        }
    } else {
        t
    }
}

/// One source construct, from the reference lexer (C01) or from the implementation's own
/// neutral-configuration run (C16).
#[derive(Clone, Debug, PartialEq, Eq)]
pub struct Item {
    pub kind: Kind,
    pub content: Vec<u8>,
    pub name_len: usize,
    /// offset of the first byte of the construct
    pub at: u64,
    /// offset just behind the construct
    pub after: u64,
    /// error position observed in the source run (C16: the neutral run), if the item is an error
    pub err_pos: Option<u64>,
}

pub struct Fatal {
    pub err: SyntaxError2,
    pub err_pos: Option<u64>,
    pub pos: Option<u64>,
}

pub fn items_from_lex(s: &[u8], lexed: &Lexed, items: &mut Vec<Item>) -> (Option<Fatal>, u64) {
    items.clear();
    for t in &lexed.toks {
        items.push(Item {
            kind: t.kind,
            content: s[t.content.clone()].to_vec(),
            name_len: t.name_len,
            at: t.span.start as u64,
            after: t.span.end as u64,
            err_pos: None,
        });
    }
    (
        lexed.fatal.map(|(e, at)| Fatal { err: e, err_pos: Some(at as u64), pos: None }),
        s.len() as u64,
    )
}

/// Builds the expected stream. Returns the mask of interpretation variants that mattered.
pub fn expected(s: &[u8], lexed: &Lexed, cfg: u8, variant: u8, out: &mut Vec<Exp>) -> u8 {
    let mut items = Vec::new();
    let (fatal, len) = items_from_lex(s, lexed, &mut items);
    expected_from_items(&items, fatal.as_ref(), Some(len), cfg, variant, out)
}

pub fn expected_from_items(
    items: &[Item],
    fatal: Option<&Fatal>,
    final_pos: Option<u64>,
    cfg: u8,
    variant: u8,
    out: &mut Vec<Exp>,
) -> u8 {
    out.clear();
    let mut ambiguous = 0u8;
    let mut stack = TagStack::default();
    for t in items {
        let content = &t.content[..];
        let after = t.after;
        let at = t.at;
        match t.kind {
            Kind::Text => {
                let mut c = content;
                if cfg & TRIM_START != 0 {
                    c = ltrim(c);
                }
                if cfg & TRIM_END != 0 {
                    c = rtrim(c);
                }
                // a text is reported when something is left of it; untrimmed text is never empty
                if !c.is_empty() {
                    out.push(Exp { ev: Ev::Text(c.to_vec()), pos: Some(after), err_pos: None });
                }
            }
            Kind::Start => {
                stack.start(&content[..t.name_len]);
                out.push(Exp { ev: Ev::Start(content.to_vec(), t.name_len), pos: Some(after), err_pos: None });
            }
            Kind::Empty => {
                if cfg & EXPAND_EMPTY != 0 {
                    out.push(Exp { ev: Ev::Start(content.to_vec(), t.name_len), pos: Some(after), err_pos: None });
                    out.push(Exp { ev: Ev::End(content[..t.name_len].to_vec()), pos: Some(after), err_pos: None });
                } else {
                    out.push(Exp { ev: Ev::Empty(content.to_vec(), t.name_len), pos: Some(after), err_pos: None });
                }
            }
            Kind::End => {
                let name = end_name(content, cfg, variant, &mut ambiguous);
                match stack.end(name, cfg) {
                    EndVerdict::Ok => out.push(Exp { ev: Ev::End(name.to_vec()), pos: Some(after), err_pos: None }),
                    EndVerdict::Mismatch { expected, found } => out.push(Exp {
                        ev: Ev::Err(E::MismatchedEndTag { expected, found }),
                        pos: Some(after),
                        err_pos: Some(at),
                    }),
                    EndVerdict::Unmatched(n) => out.push(Exp {
                        ev: Ev::Err(E::UnmatchedEndTag(n)),
                        pos: Some(after),
                        err_pos: Some(at),
                    }),
                }
            }
            Kind::Comment => {
                let mut bad = false;
                if cfg & CHECK_COMMENTS != 0 {
                    bad = content.windows(2).any(|w| w == b"--");
                    if !bad && content.ends_with(b"-") {
                        ambiguous |= V_COMMENT_TAIL_HYPHEN;
                        bad = variant & V_COMMENT_TAIL_HYPHEN != 0;
                    }
                }
                if bad {
                    out.push(Exp { ev: Ev::Err(E::DoubleHyphenInComment), pos: Some(after), err_pos: None });
                } else {
                    out.push(Exp { ev: Ev::Comment(content.to_vec()), pos: Some(after), err_pos: None });
                }
            }
            Kind::CData => out.push(Exp { ev: Ev::CData(content.to_vec()), pos: Some(after), err_pos: None }),
            Kind::DocType => out.push(Exp { ev: Ev::DocType(content.to_vec()), pos: Some(after), err_pos: None }),
            Kind::Decl => out.push(Exp { ev: Ev::Decl(content.to_vec()), pos: Some(after), err_pos: None }),
            Kind::PI => out.push(Exp { ev: Ev::PI(content.to_vec(), t.name_len), pos: Some(after), err_pos: None }),
            Kind::MissingDoctypeName => {
                out.push(Exp { ev: Ev::Err(E::MissingDoctypeName), pos: Some(after), err_pos: t.err_pos })
            }
        }
    }
    match fatal {
        Some(f) => {
            out.push(Exp { ev: Ev::Err(E::Syntax(f.err)), pos: f.pos, err_pos: f.err_pos });
            out.push(Exp { ev: Ev::Eof, pos: f.pos, err_pos: f.err_pos });
        }
        None => out.push(Exp { ev: Ev::Eof, pos: final_pos, err_pos: None }),
    }
    ambiguous
}

/// Compares an observed trace (up to and including the first Eof) with the expected stream.
/// Returns the index of the first divergence.
pub fn first_divergence(obs: &[Obs], exp: &[Exp]) -> Option<usize> {
    for i in 0..exp.len().max(obs.len()) {
        match (obs.get(i), exp.get(i)) {
            (Some(o), Some(e)) => {
                if o.ev != e.ev {
                    return Some(i);
                }
                if let Some(p) = e.pos {
                    if o.pos != p {
                        return Some(i);
                    }
                }
                if let Some(p) = e.err_pos {
                    if o.err_pos != p {
                        return Some(i);
                    }
                }
            }
            _ => return Some(i),
        }
    }
    None
}

pub fn show_exp(t: &[Exp]) -> Vec<serde_json::Value> {
    t.iter()
        .map(|o| {
            serde_json::json!(format!(
                "{} pos={} err_pos={}",
                o.ev.show(),
                o.pos.map_or("-".to_string(), |p| p.to_string()),
                o.err_pos.map_or("-".to_string(), |p| p.to_string())
            ))
        })
        .collect()
}
