//! Reference lexer (independent of the implementation): whole-input, substring search, no carry
//! state. Written from the XML grammar and quick-xml's public documentation.
//!
//! All offsets are offsets into the BOM-stripped input (the reader does not count a stripped BOM).

use crate::trace::SyntaxError2;
use std::ops::Range;

#[derive(Clone, Copy, PartialEq, Eq, Debug, Hash)]
pub enum Kind {
    Text,
    Start,
    Empty,
    End,
    Comment,
    CData,
    DocType,
    Decl,
    PI,
    /// `<!DOCTYPE   >`: recoverable ill-formedness error, no event
    MissingDoctypeName,
}

#[derive(Clone, PartialEq, Eq, Debug)]
pub struct Tok {
    pub kind: Kind,
    /// the whole construct including its delimiters
    pub span: Range<usize>,
    /// the bytes an event exposes
    pub content: Range<usize>,
    /// Start/Empty: length of the name; PI: length of the target
    pub name_len: usize,
}

#[derive(Clone, PartialEq, Eq, Debug, Default)]
pub struct Lexed {
    pub toks: Vec<Tok>,
    /// fatal syntax error and the offset of the `<` that starts the unfinished construct
    pub fatal: Option<(SyntaxError2, usize)>,
    /// input contains `<?>` (the F8 shape) at the point where lexing of a PI started
    pub saw_bare_pi_open: bool,
}

pub fn is_ws(b: u8) -> bool {
    matches!(b, b' ' | b'\t' | b'\r' | b'\n')
}

pub fn strip_bom(input: &[u8]) -> &[u8] {
    if input.starts_with(&[0xEF, 0xBB, 0xBF]) {
        return &input[3..];
    }
    // with encoding support the reader also recognises (and removes) the two UTF-16 BOMs
    if cfg!(feature = "full") && (input.starts_with(&[0xFE, 0xFF]) || input.starts_with(&[0xFF, 0xFE])) {
        return &input[2..];
    }
    input
}

fn find(hay: &[u8], from: usize, needle: &[u8]) -> Option<usize> {
    if from > hay.len() {
        return None;
    }
    hay[from..]
        .windows(needle.len())
        .position(|w| w == needle)
        .map(|p| p + from)
}

/// Quote-aware search for the `>` that closes a tag whose first content byte is at `from`.
fn tag_end(s: &[u8], from: usize) -> Option<usize> {
    let mut quote: Option<u8> = None;
    for (i, &b) in s.iter().enumerate().skip(from) {
        match quote {
            Some(q) => {
                if b == q {
                    quote = None
                }
            }
            None => match b {
                b'>' => return Some(i),
                b'"' | b'\'' => quote = Some(b),
                _ => {}
            },
        }
    }
    None
}

fn name_len(content: &[u8]) -> usize {
    content.iter().position(|&b| is_ws(b)).unwrap_or(content.len())
}

/// Lexes the BOM-stripped input `s`.
pub fn lex(s: &[u8]) -> Lexed {
    let mut out = Lexed::default();
    let n = s.len();
    let mut p = 0;
    while p < n {
        let q = match s[p..].iter().position(|&b| b == b'<') {
            Some(i) => p + i,
            None => {
                out.toks.push(Tok { kind: Kind::Text, span: p..n, content: p..n, name_len: 0 });
                break;
            }
        };
        if q > p {
            out.toks.push(Tok { kind: Kind::Text, span: p..q, content: p..q, name_len: 0 });
        }
        let fatal = |e: SyntaxError2| Some((e, q));
        match s.get(q + 1).copied() {
            None => {
                out.fatal = fatal(SyntaxError2::UnclosedTag);
                return out;
            }
            Some(b'!') => match s.get(q + 2).copied() {
                Some(b'-') => {
                    if !s[q..].starts_with(b"<!--") {
                        out.fatal = fatal(SyntaxError2::UnclosedComment);
                        return out;
                    }
                    match find(s, q + 4, b"-->") {
                        Some(e) => {
                            out.toks.push(Tok { kind: Kind::Comment, span: q..e + 3, content: q + 4..e, name_len: 0 });
                            p = e + 3;
                        }
                        None => {
                            out.fatal = fatal(SyntaxError2::UnclosedComment);
                            return out;
                        }
                    }
                }
                Some(b'[') => {
                    if !s[q..].starts_with(b"<![CDATA[") {
                        out.fatal = fatal(SyntaxError2::UnclosedCData);
                        return out;
                    }
                    match find(s, q + 9, b"]]>") {
                        Some(e) => {
                            out.toks.push(Tok { kind: Kind::CData, span: q..e + 3, content: q + 9..e, name_len: 0 });
                            p = e + 3;
                        }
                        None => {
                            out.fatal = fatal(SyntaxError2::UnclosedCData);
                            return out;
                        }
                    }
                }
                Some(b'D') | Some(b'd') => {
                    // balanced scan for the closing `>`
                    let mut depth = 0i64;
                    let mut end = None;
                    for i in q + 2..n {
                        match s[i] {
                            b'<' => depth += 1,
                            b'>' => {
                                if depth == 0 {
                                    end = Some(i);
                                    break;
                                }
                                depth -= 1;
                            }
                            _ => {}
                        }
                    }
                    let Some(e) = end else {
                        out.fatal = fatal(SyntaxError2::UnclosedDoctype);
                        return out;
                    };
                    let body = &s[q + 2..e];
                    if body.len() < 7 || !body[..7].eq_ignore_ascii_case(b"DOCTYPE") {
                        out.fatal = fatal(SyntaxError2::UnclosedDoctype);
                        return out;
                    }
                    let after_kw = q + 9;
                    match s[after_kw..e].iter().position(|&b| !is_ws(b)) {
                        Some(off) => out.toks.push(Tok {
                            kind: Kind::DocType,
                            span: q..e + 1,
                            content: after_kw + off..e,
                            name_len: 0,
                        }),
                        None => out.toks.push(Tok {
                            kind: Kind::MissingDoctypeName,
                            span: q..e + 1,
                            content: e..e,
                            name_len: 0,
                        }),
                    }
                    p = e + 1;
                }
                _ => {
                    out.fatal = fatal(SyntaxError2::InvalidBangMarkup);
                    return out;
                }
            },
            Some(b'?') => {
                if s.get(q + 2) == Some(&b'>') {
                    out.saw_bare_pi_open = true;
                }
                match find(s, q + 2, b"?>") {
                    Some(e) => {
                        let content = &s[q + 2..e];
                        let is_decl = content.starts_with(b"xml") && (content.len() == 3 || is_ws(content[3]));
                        out.toks.push(Tok {
                            kind: if is_decl { Kind::Decl } else { Kind::PI },
                            span: q..e + 2,
                            content: q + 2..e,
                            name_len: if is_decl { 3 } else { name_len(content) },
                        });
                        p = e + 2;
                    }
                    None => {
                        out.fatal = fatal(SyntaxError2::UnclosedPIOrXmlDecl);
                        return out;
                    }
                }
            }
            Some(b'/') => match tag_end(s, q + 1) {
                Some(e) => {
                    out.toks.push(Tok { kind: Kind::End, span: q..e + 1, content: q + 2..e, name_len: 0 });
                    p = e + 1;
                }
                None => {
                    out.fatal = fatal(SyntaxError2::UnclosedTag);
                    return out;
                }
            },
            Some(_) => match tag_end(s, q + 1) {
                Some(e) => {
                    let mut content = q + 1..e;
                    let kind = if s[content.clone()].ends_with(b"/") {
                        content.end -= 1;
                        Kind::Empty
                    } else {
                        Kind::Start
                    };
                    let nl = name_len(&s[content.clone()]);
                    out.toks.push(Tok { kind, span: q..e + 1, content, name_len: nl });
                    p = e + 1;
                }
                None => {
                    out.fatal = fatal(SyntaxError2::UnclosedTag);
                    return out;
                }
            },
        }
    }
    out
}
