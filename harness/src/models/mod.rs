pub mod attrs;
pub mod layer;
pub mod lex;
pub mod xmlname;
