pub mod attrs;
pub mod layer;
pub mod lex;
