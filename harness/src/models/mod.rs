pub mod layer;
pub mod lex;
