//! Independent predicate for the XML `Name` production (XML 1.0 5th edition / XML 1.1, productions
//! [4] NameStartChar, [4a] NameChar, [5] Name), written from the specification's ranges.

fn in_ranges(c: u32, ranges: &[(u32, u32)]) -> bool {
    ranges.iter().any(|&(a, b)| a <= c && c <= b)
}

const START: &[(u32, u32)] = &[
    (0x3A, 0x3A), // ":"
    (0x41, 0x5A),
    (0x5F, 0x5F), // "_"
    (0x61, 0x7A),
    (0xC0, 0xD6),
    (0xD8, 0xF6),
    (0xF8, 0x2FF),
    (0x370, 0x37D),
    (0x37F, 0x1FFF),
    (0x200C, 0x200D),
    (0x2070, 0x218F),
    (0x2C00, 0x2FEF),
    (0x3001, 0xD7FF),
    (0xF900, 0xFDCF),
    (0xFDF0, 0xFFFD),
    (0x10000, 0xEFFFF),
];

const MORE: &[(u32, u32)] = &[(0x2D, 0x2D), (0x2E, 0x2E), (0x30, 0x39), (0xB7, 0xB7), (0x300, 0x36F), (0x203F, 0x2040)];

pub fn is_name(s: &str) -> bool {
    let mut it = s.chars();
    match it.next() {
        None => false,
        Some(c) => in_ranges(c as u32, START) && it.all(|c| in_ranges(c as u32, START) || in_ranges(c as u32, MORE)),
    }
}
