//! Controlled environments: the only sources of nondeterminism a reader/writer can see are the
//! answers of its I/O object. Each answer is decided by a `Script`, so that a run is a pure
//! function of (input, configuration, script) and can be replayed.

use std::future::Future;
use std::io::{self, BufRead};
use std::pin::Pin;
use std::task::{Context, Poll, Waker};
use tokio::io::{AsyncBufRead, AsyncRead, AsyncWrite, ReadBuf};

#[derive(Clone, Copy, PartialEq, Eq, Hash, Debug)]
pub enum Fault {
    Interrupted,
    Hard(io::ErrorKind),
    Pending,
}

/// How the source answers: where it cuts the input into pieces and which `fill_buf` calls
/// (counted from 0, every call counts) answer with a fault instead of data.
#[derive(Clone, PartialEq, Eq, Hash, Debug, Default)]
pub struct Script {
    /// sorted offsets in 1..len at which a piece ends
    pub cuts: Vec<usize>,
    /// uniform piece size (0 = none); combined with `cuts` (a piece ends at either)
    pub piece: usize,
    /// sorted by call index
    pub faults: Vec<(usize, Fault)>,
    /// a source that reports end-of-input once at this offset (empty `fill_buf`) and then goes on
    /// delivering the rest (a file that is appended to, a socket): `Eof` must stay final for the reader
    pub eof_once_at: Option<usize>,
    /// what the *consumer* does with the buffer it hands to `read_event_into*` (kept here because the
    /// script travels into every run and every replay file): 0 = cleared before every call; 1 = never
    /// cleared (events accumulate, legal: clearing only saves memory); k >= 2 = reset to `USER_BUF_JUNK[k-2]`
    /// before every call (bytes of an earlier, unrelated use that look like the first half of a terminator)
    pub user_buf: u8,
}

pub const USER_BUF_JUNK: [&[u8]; 9] = [b"-", b"--", b"]", b"]]", b"?", b"<!--", b"<![CDATA[", b"\"", b"<"];

/// Applies the consumer's buffer policy before a call.
pub fn prepare_user_buf(policy: u8, buf: &mut Vec<u8>) {
    match policy {
        0 => buf.clear(),
        1 => {}
        k => {
            buf.clear();
            buf.extend_from_slice(USER_BUF_JUNK[(k as usize - 2) % USER_BUF_JUNK.len()]);
        }
    }
}

impl Script {
    pub fn whole() -> Script {
        Script::default()
    }
    pub fn pieces(n: usize) -> Script {
        Script { piece: n, ..Default::default() }
    }
    pub fn cuts(c: &[usize]) -> Script {
        Script { cuts: c.to_vec(), ..Default::default() }
    }
    /// All cuts encoded as a bit mask over offsets 1..len (bit i-1 <=> cut at offset i).
    pub fn from_mask(mask: u64, len: usize) -> Script {
        Script { cuts: (1..len).filter(|i| mask & (1 << (i - 1)) != 0).collect(), ..Default::default() }
    }
    pub fn to_json(&self) -> serde_json::Value {
        serde_json::json!({
            "cuts": self.cuts,
            "piece": self.piece,
            "faults": self.faults.iter().map(|(i, f)| serde_json::json!([i, format!("{:?}", f)])).collect::<Vec<_>>(),
            "eof_once_at": self.eof_once_at,
            "user_buf": self.user_buf,
        })
    }
    pub fn from_json(v: &serde_json::Value) -> Script {
        let cuts = v["cuts"].as_array().map(|a| a.iter().map(|x| x.as_u64().unwrap() as usize).collect()).unwrap_or_default();
        let piece = v["piece"].as_u64().unwrap_or(0) as usize;
        let faults = v["faults"]
            .as_array()
            .map(|a| {
                a.iter()
                    .map(|p| {
                        let i = p[0].as_u64().unwrap() as usize;
                        let f = match p[1].as_str().unwrap() {
                            "Interrupted" => Fault::Interrupted,
                            "Pending" => Fault::Pending,
                            s => {
                                use io::ErrorKind::*;
                                let kinds = [NotFound, PermissionDenied, ConnectionRefused, ConnectionReset, ConnectionAborted, NotConnected, AddrInUse, AddrNotAvailable, BrokenPipe, AlreadyExists, WouldBlock, InvalidInput, InvalidData, TimedOut, WriteZero, UnexpectedEof, Unsupported, OutOfMemory, Other];
                                let k = kinds.iter().copied().find(|k| s == format!("Hard({:?})", k)).unwrap_or(Other);
                                Fault::Hard(k)
                            }
                        };
                        (i, f)
                    })
                    .collect()
            })
            .unwrap_or_default();
        Script { cuts, piece, faults, eof_once_at: v["eof_once_at"].as_u64().map(|x| x as usize), user_buf: v["user_buf"].as_u64().unwrap_or(0) as u8 }
    }
}

/// Scripted in-memory source, usable as `BufRead` and as `AsyncBufRead`.
pub struct Source<'a> {
    data: &'a [u8],
    pos: usize,
    script: &'a Script,
    next_cut: usize,
    next_fault: usize,
    /// number of fill_buf calls so far
    pub calls: usize,
    /// number of calls that were answered with data or EOF (not a fault)
    pub data_calls: usize,
    /// set when a scripted fault index was reached
    pub faults_fired: usize,
    /// misuse of the BufRead contract by the consumer (consume more than offered)
    pub misuse: Option<String>,
    last_offered: usize,
    eof_reported: bool,
    /// input offsets at which scripted faults fired
    pub fault_offsets: Vec<usize>,
}

impl<'a> Source<'a> {
    pub fn new(data: &'a [u8], script: &'a Script) -> Source<'a> {
        Source {
            data,
            pos: 0,
            script,
            next_cut: 0,
            next_fault: 0,
            calls: 0,
            data_calls: 0,
            faults_fired: 0,
            misuse: None,
            last_offered: 0,
            eof_reported: false,
            fault_offsets: Vec::new(),
        }
    }
    fn piece_end(&mut self) -> usize {
        let mut end = self.data.len();
        while self.next_cut < self.script.cuts.len() && self.script.cuts[self.next_cut] <= self.pos {
            self.next_cut += 1;
        }
        if let Some(&c) = self.script.cuts.get(self.next_cut) {
            end = end.min(c);
        }
        if self.script.piece > 0 {
            let p = self.script.piece;
            end = end.min((self.pos / p + 1) * p);
        }
        end
    }
    fn scripted_fault(&mut self) -> Option<Fault> {
        let idx = self.calls;
        self.calls += 1;
        if let Some(&(i, f)) = self.script.faults.get(self.next_fault) {
            if i == idx {
                self.next_fault += 1;
                self.faults_fired += 1;
                self.fault_offsets.push(self.pos);
                return Some(f);
            }
        }
        None
    }
    fn answer(&mut self) -> &'a [u8] {
        self.data_calls += 1;
        if let Some(k) = self.script.eof_once_at {
            if !self.eof_reported && self.pos >= k {
                self.eof_reported = true;
                self.last_offered = 0;
                return &self.data[self.pos..self.pos];
            }
        }
        let mut end = self.piece_end();
        if let Some(k) = self.script.eof_once_at {
            if !self.eof_reported && k > self.pos {
                end = end.min(k);
            }
        }
        self.last_offered = end - self.pos;
        &self.data[self.pos..end]
    }
    fn do_consume(&mut self, amt: usize) {
        if amt > self.data.len() - self.pos {
            self.misuse = Some(format!("consume({}) with only {} bytes left", amt, self.data.len() - self.pos));
            self.pos = self.data.len();
        } else {
            self.pos += amt;
        }
    }
    pub fn remaining(&self) -> usize {
        self.data.len() - self.pos
    }
}

fn io_err(kind: io::ErrorKind) -> io::Error {
    io::Error::new(kind, "scripted fault")
}

impl<'a> io::Read for Source<'a> {
    fn read(&mut self, buf: &mut [u8]) -> io::Result<usize> {
        let avail = self.fill_buf()?;
        let n = avail.len().min(buf.len());
        buf[..n].copy_from_slice(&avail[..n]);
        self.consume(n);
        Ok(n)
    }
}

impl<'a> BufRead for Source<'a> {
    fn fill_buf(&mut self) -> io::Result<&[u8]> {
        match self.scripted_fault() {
            Some(Fault::Interrupted) => Err(io_err(io::ErrorKind::Interrupted)),
            Some(Fault::Hard(k)) => Err(io_err(k)),
            Some(Fault::Pending) | None => Ok(self.answer()),
        }
    }
    fn consume(&mut self, amt: usize) {
        self.do_consume(amt)
    }
}

impl<'a> AsyncRead for Source<'a> {
    fn poll_read(self: Pin<&mut Self>, cx: &mut Context<'_>, buf: &mut ReadBuf<'_>) -> Poll<io::Result<()>> {
        let this = self.get_mut();
        match Pin::new(&mut *this).poll_fill_buf(cx) {
            Poll::Pending => Poll::Pending,
            Poll::Ready(Err(e)) => Poll::Ready(Err(e)),
            Poll::Ready(Ok(avail)) => {
                let n = avail.len().min(buf.remaining());
                buf.put_slice(&avail[..n]);
                this.do_consume(n);
                Poll::Ready(Ok(()))
            }
        }
    }
}

impl<'a> AsyncBufRead for Source<'a> {
    fn poll_fill_buf(self: Pin<&mut Self>, cx: &mut Context<'_>) -> Poll<io::Result<&[u8]>> {
        let this = self.get_mut();
        match this.scripted_fault() {
            Some(Fault::Pending) => {
                cx.waker().wake_by_ref();
                Poll::Pending
            }
            Some(Fault::Interrupted) => Poll::Ready(Err(io_err(io::ErrorKind::Interrupted))),
            Some(Fault::Hard(k)) => Poll::Ready(Err(io_err(k))),
            None => Poll::Ready(Ok(this.answer())),
        }
    }
    fn consume(self: Pin<&mut Self>, amt: usize) {
        self.get_mut().do_consume(amt)
    }
}

/// Polls a future to completion by hand with a no-op waker. `max_polls` is the horizon: a future
/// that is still pending after that many polls is reported as stuck (`None`).
pub fn block_on<F: Future>(fut: F, max_polls: usize) -> Option<F::Output> {
    let mut fut = std::pin::pin!(fut);
    let waker = Waker::noop();
    let mut cx = Context::from_waker(waker);
    for _ in 0..max_polls {
        if let Poll::Ready(v) = fut.as_mut().poll(&mut cx) {
            return Some(v);
        }
    }
    None
}

// ------------------------------------------------------------------------------------------------
// Scripted AsyncWrite

#[derive(Clone, Copy, PartialEq, Eq, Hash, Debug)]
pub enum WAnswer {
    All,
    OneByte,
    Pending,
}

/// In-memory `AsyncWrite` whose `poll_write` calls are answered by a script: call index -> answer
/// (default: accept everything).
pub struct ScriptedWrite {
    pub out: Vec<u8>,
    pub script: Vec<(usize, WAnswer)>,
    pub calls: usize,
    next: usize,
}

impl ScriptedWrite {
    pub fn new(script: Vec<(usize, WAnswer)>) -> Self {
        ScriptedWrite { out: Vec::new(), script, calls: 0, next: 0 }
    }
}

impl AsyncWrite for ScriptedWrite {
    fn poll_write(self: Pin<&mut Self>, cx: &mut Context<'_>, buf: &[u8]) -> Poll<io::Result<usize>> {
        let this = self.get_mut();
        let idx = this.calls;
        this.calls += 1;
        let mut ans = WAnswer::All;
        if let Some(&(i, a)) = this.script.get(this.next) {
            if i == idx {
                this.next += 1;
                ans = a;
            }
        }
        match ans {
            WAnswer::All => {
                this.out.extend_from_slice(buf);
                Poll::Ready(Ok(buf.len()))
            }
            WAnswer::OneByte => {
                let n = buf.len().min(1);
                this.out.extend_from_slice(&buf[..n]);
                Poll::Ready(Ok(n))
            }
            WAnswer::Pending => {
                cx.waker().wake_by_ref();
                Poll::Pending
            }
        }
    }
    fn poll_flush(self: Pin<&mut Self>, _cx: &mut Context<'_>) -> Poll<io::Result<()>> {
        Poll::Ready(Ok(()))
    }
    fn poll_shutdown(self: Pin<&mut Self>, _cx: &mut Context<'_>) -> Poll<io::Result<()>> {
        Poll::Ready(Ok(()))
    }
}
