#!/usr/bin/env python3
"""Prints a markdown table of what the last run of every check covered (from evidence/*.json)."""
import json, glob, os
rows = []
for f in sorted(glob.glob(os.path.join(os.path.dirname(__file__), "..", "evidence", "C*.json"))):
    d = json.load(open(f))
    c = d["coverage"]
    layers = sum(len(b.get("layers", [])) for b in c.get("builds", {}).values())
    known = sorted({k.get("finding", "?") if isinstance(k, dict) else str(k) for b in c.get("builds", {}).values() for k in b.get("known_findings", [])})
    rows.append((d["property_id"], d["tier"], c["evaluations"], c["transitions"], c["states"], c["distinct_nontrivial"], layers, "yes" if c["exhaustive"] else "CAPPED", d["violations"], ",".join(known) or "-", d["wall_s"]))
print("| property | tier | executions | transitions | states | distinct non-trivial | layers | exhaustive | violations | known findings | wall s |")
print("|---|---|---|---|---|---|---|---|---|---|---|")
for r in rows:
    print("| %s | %s | %.3g | %.3g | %d | %.3g | %d | %s | %d | %s | %.0f |" % r)
